"""Property acceptors over implementation traces (lists of numbers, vocabulary of Model/Events.v).

These are the *search for a concrete failing input*: each checks the clauses of one property
directly on what the implementation did, using observable events only. They are not the
theorems (those are in coq/theories/Props) and nothing here is trusted for a "holds" verdict:
a property is reported as holding only when the Coq obligations are discharged and the model
accepts every implementation trace. A violation found here is reported with the case as replay.

All checks are one-directional and conservative: they flag only what the property text forbids.
"""
from collections import defaultdict

(SPAWN, HANDLE, DROP, UPG, OP, RET, DEQ, HBEGIN, HEND, PUSH, SLEEP, CBBEGIN, CBEND, TASKEND, CLOCK, QUIESCE, BUDGET,
 TIMEREND, CLIENTEND, FOREIGN, CTX, TIMERREG, TICK, EXEC, YIELD, STREAMEND, ITEMBEGIN, ITEMEND, JOINNEW, JOINDROP,
 CHILDADD, BCAST, REG, SUBSCRIBE, DELIVER, PUBCOPY, RELEASE, QUERY, CRASH, STREAMCLOSE, BCASTBEGIN, TIMERSLEEP,
 PROBE) = range(1, 44)
K_SEND, K_CALL, K_PING, K_STOP, K_RESTART, K_HALT, K_AWAIT, K_AWAIT_REF, K_JOIN, K_CONSUME, K_FORCE, K_PUBLISH, K_UNSUB = range(13)
R_OK, R_OKV, R_ERR, R_NONE, R_SOMEV, R_BOOL, R_SKIP, R_OPTBOOL, R_INST = range(9)
HK_ADDR, HK_OWNING, HK_SENDER, HK_CALLER, HK_WADDR, HK_WSENDER, HK_WCALLER = range(7)
STRONG = {HK_ADDR, HK_OWNING, HK_SENDER, HK_CALLER}
SUBMITS = {K_SEND, K_CALL, K_PING, K_FORCE}


class Actor:
    def __init__(self, aid, cfg):
        self.aid = aid
        self.bound = None if cfg[0] == 0 else cfg[0] - 1
        self.timeout = None if cfg[1] == 0 else cfg[1] - 1
        self.failto = bool(cfg[2])
        self.strat = cfg[3]
        self.stream = bool(cfg[4])
        self.entry = cfg[5]
        self.ty = cfg[6]
        self.busy = None          # oid / ('item', idx) being handled
        self.hbegin_time = None
        self.log = []
        self.inc = 0              # incarnations whose started() completed
        self.dead = None          # how the task ended
        self.dead_at = None       # event index of TaskEnd
        self.graceful = None
        self.cbs = []             # lifecycle event sequence (compressed)
        self.in_cb = None
        self.strong = 0           # strong handle instances announced and not dropped
        self.first_stop_op = None     # event index of the first stop request's Op
        self.stop_accepted_ret = None  # event index of the first accepted stop's Ret
        self.restart_cut = None   # index of the last CbEnd stopped that belonged to a restart
        self.timers = {}          # k -> dict
        self.children = []        # (ty, hid)
        self.pending_restart = False
        self.stopped_cb_end = None
        self.failed = False
        self.crashing = False
        self.deq_stop = False
        self.yielded = 0
        self.items_done = 0
        self.stream_ended = False
        self.join_given = False
        self.sends_ret_unbegun = set()
        self.registry_held = False


class Op:
    def __init__(self, o, client, hid, kind, aid, hk, idx, now):
        self.o, self.client, self.hid, self.kind, self.aid, self.hk = o, client, hid, kind, aid, hk
        self.idx = idx
        self.t = now
        self.ret = None
        self.ret_idx = None
        self.begun = None
        self.ended = None
        self.val = None
        self.pred = set()
        self.after_dead = False
        self.after_stop_ret = False
        self.must_handle = False


class Obs:
    def __init__(self):
        self.actors = {}
        self.h = {}
        self.ops = {}
        self.now = 0
        self.joins = {}
        self.v = defaultdict(list)   # property id -> violations
        self.handled = set()
        self.reg = {}               # ty -> aid  (sequential registry replica)
        self.reg_ops = {}
        self.rlock = False
        self.rpend = 0
        self.uses_registry = False
        self.bc = None              # current broadcast (parent, ty, count, expected)

    def bad(self, pid, msg, idx):
        self.v[pid].append(f"event {idx}: {msg}")


def rval(e):
    # [RET, o, rk, ...]
    rk = e[2]
    if rk in (R_OKV, R_SOMEV):
        return (rk, tuple(e[4:]))
    return (rk, tuple(e[3:]))


def run(tr):
    S = Obs()
    A = S.actors
    for idx, e in enumerate(tr):
        t = e[0]
        if t == CLOCK:
            clock_checks(S, idx)
            S.now = e[1]
        elif t == SPAWN:
            A[e[1]] = Actor(e[1], e[2:])
            if e[7] == 6:
                S.uses_registry = True
                A[e[1]].registry_held = True
                # C08: a lookup spawns only when no live instance is registered
                ty = e[8]
                cur = S.reg.get(ty)
                if cur is not None and A[cur].dead is None:
                    S.bad("C08", f"a second instance of service type {ty} was spawned while a{cur} is registered and alive", idx)
                if S.rlock:
                    S.bad("C08", "a lookup spawned while another spawning lookup still held the registry", idx)
                S.reg[ty] = e[1]
                S.rlock = True
        elif t == FOREIGN:
            A[e[1]] = Actor(e[1], [0, 0, 0, 0, 0, 6, 9])
            A[e[1]].inc = 1
        elif t == HANDLE:
            S.h[e[1]] = (e[2], e[3])
            if e[3] in STRONG and e[2] in A:
                A[e[2]].strong += 1
        elif t == DROP:
            if e[1] in S.h:
                a, k = S.h.pop(e[1])
                if k in STRONG and a in A:
                    A[a].strong -= 1
        elif t == UPG:
            a, k = S.h.get(e[1], (None, None))
            if a in A:
                x = A[a]
                # C15 / C05: while any strong handle of any kind exists every weak handle upgrades
                if not e[2] and x.strong > 0:
                    S.bad("C15", f"weak handle h{e[1]} to a{a} failed to upgrade although {x.strong} strong handle(s) exist", idx)
                    S.bad("C05", f"weak handle h{e[1]} to a{a} failed to upgrade although {x.strong} strong handle(s) exist", idx)
        elif t == OP:
            o, c, hid, k = e[1], e[2], e[3], e[4]
            if k == K_JOIN:
                a = S.joins.get(hid)
                hk = None
            elif k in (K_PUBLISH, K_UNSUB):
                a, hk = None, None
            else:
                a, hk = S.h.get(hid, (None, None))
            op = Op(o, c, hid, k, a, hk, idx, S.now)
            if o in S.ops:
                S.bad("C02", f"operation id o{o} reused", idx)
            S.ops[o] = op
            if a in A:
                x = A[a]
                op.after_dead = x.dead is not None
                op.after_stop_ret = x.stop_accepted_ret is not None
                if k in SUBMITS:
                    op.pred = set(x.sends_ret_unbegun)
                if k in (K_STOP, K_HALT, K_CONSUME) and x.first_stop_op is None:
                    x.first_stop_op = idx
        elif t == CTX:
            a, restart, ok, o = e[1], e[2], e[3], e[4]
            if a in A:
                x = A[a]
                if not ok and x.strong > 0:
                    S.bad("C15", f"Context::{'restart' if restart else 'stop'} of a{a} failed although {x.strong} strong handle(s) exist", idx)
                if ok and not restart:
                    if x.first_stop_op is None:
                        x.first_stop_op = idx
                    if x.stop_accepted_ret is None:
                        x.stop_accepted_ret = idx
        elif t == RET:
            o = e[1]
            op = S.ops.get(o)
            if op is None:
                if o in S.reg_ops:
                    reg_ret(S, o, e, idx)
                continue
            rv = rval(e)
            if op.ret is not None:
                S.bad("C02", f"operation o{o} returned twice", idx)
            op.ret, op.ret_idx = rv, idx
            x = A.get(op.aid)
            if x is None:
                continue
            ok = rv[0] in (R_OK, R_OKV, R_SOMEV)
            if rv[0] == R_SKIP:
                continue
            # --- C02: a call returns exactly its own handler's value
            if op.kind == K_CALL and rv[0] == R_OKV:
                if op.ended != 0:
                    S.bad("C02", f"call o{o} returned Ok although its handler did not complete ({op.ended})", idx)
                elif tuple(op.val) != rv[1]:
                    S.bad("C02", f"call o{o} returned {list(rv[1])}, its own handler produced {list(op.val)}", idx)
                    S.bad("C01", f"call o{o} saw state {list(rv[1])}, the sequential fold of the handled messages is {list(op.val)}", idx)
            if op.kind == K_PING and rv[0] == R_OK and x.inc == 0 and x.dead is None:
                S.bad("C03", f"ping o{o} answered before started() of a{op.aid} completed", idx)
            # --- C02/C06: operations begun after the end of the actor's task fail
            if op.after_dead and op.kind in (K_SEND, K_CALL, K_PING, K_STOP, K_RESTART, K_FORCE) and ok:
                S.bad("C02", f"{op.kind} o{o} on terminated a{op.aid} returned Ok", idx)
                if x.graceful is False:
                    S.bad("C06", f"operation o{o} on failed a{op.aid} returned Ok", idx)
            # --- C04: announcement after stopped(), Ok iff graceful
            if op.kind in (K_AWAIT, K_AWAIT_REF, K_HALT) and not (op.kind == K_HALT and rv == (R_ERR, (0,))) and not (op.kind == K_HALT and rv == (R_ERR, (2,))):
                if x.dead is None:
                    S.bad("C04", f"await/halt o{o} on a{op.aid} resolved before the actor's task ended", idx)
                else:
                    if ok != bool(x.graceful):
                        S.bad("C04", f"await/halt o{o} on a{op.aid} returned {'Ok' if ok else 'Err'} but termination was {'graceful' if x.graceful else 'a failure'}", idx)
                        S.bad("C02", f"await/halt o{o} on a{op.aid} returned {'Ok' if ok else 'Err'} but termination was {'graceful' if x.graceful else 'a failure'}", idx)
                        if not x.graceful:
                            S.bad("C06", f"awaiting failed a{op.aid} yielded Ok", idx)
            # --- C17: join / consume
            if op.kind in (K_JOIN, K_CONSUME):
                got = rv[0] in (R_SOMEV, R_OKV)
                if got:
                    if x.dead is None:
                        S.bad("C17", f"join o{o} returned the actor before its task ended", idx)
                    elif not x.graceful:
                        S.bad("C17", f"join o{o} returned a value although a{op.aid} failed", idx)
                        S.bad("C06", f"join of failed a{op.aid} yielded a value", idx)
                    elif x.join_given:
                        S.bad("C17", f"the value of a{op.aid} was handed out twice", idx)
                    elif tuple(x.log) != rv[1]:
                        S.bad("C17", f"join o{o} returned state {list(rv[1])}, final state is {x.log}", idx)
                        S.bad("C01", f"join o{o} returned state {list(rv[1])}, the fold of handled messages is {x.log}", idx)
                    x.join_given = True
                elif x.dead is None and op.kind == K_JOIN and rv[0] == R_NONE and not getattr(op, 'taken_elsewhere', False):
                    pass
            # --- C12 bookkeeping for C01's real-time order: sends that returned Ok, not yet begun
            if op.kind == K_SEND and rv[0] == R_OK and op.begun is None and x.dead is None:
                x.sends_ret_unbegun.add(o)
                # C04 drain: completed before any stop request was issued
                if x.first_stop_op is None:
                    op.must_handle = True
            if op.kind in (K_STOP, K_HALT, K_CONSUME) and ok and x.stop_accepted_ret is None:
                x.stop_accepted_ret = idx
            if op.kind == K_STOP and ok and x.stop_accepted_ret is None:
                x.stop_accepted_ret = idx
            # C04 barrier: calls submitted after an accepted stop returned must fail
            if op.after_stop_ret and op.kind in (K_CALL,) and rv[0] == R_OKV:
                S.bad("C04", f"call o{o} submitted after an accepted stop of a{op.aid} had returned was answered", idx)
        elif t == HBEGIN:
            a, o = e[1], e[2]
            x = A.get(a)
            if x is None:
                continue
            if x.busy is not None:
                S.bad("C01", f"handler for o{o} entered on a{a} while {x.busy} is still being handled", idx)
            if o in S.handled:
                S.bad("C01", f"message o{o} handled twice", idx)
            S.handled.add(o)
            x.hbegins = getattr(x, "hbegins", 0) + 1
            x.busy = o
            x.hbegin_time = S.now
            if getattr(x, "fatal_timeout", None) is not None:
                S.bad("C11", f"a{a} was configured with fail_on_timeout and abandoned the handler of o{x.fatal_timeout} at its limit, yet it goes on to handle o{o} instead of terminating as failed", idx)
                x.fatal_timeout = None
            if x.dead is not None:
                S.bad("C06" if not x.graceful else "C03", f"handler entered on a{a} after its task ended", idx)
                S.bad("C10", f"a message was handled on a{a} after it terminated", idx)
            if x.inc == 0 or x.in_cb is not None:
                S.bad("C03", f"handler for o{o} entered on a{a} outside started..stopped (incarnations started: {x.inc}, in callback: {x.in_cb})", idx)
            if x.stopped_cb_end is not None:
                S.bad("C03", f"handler for o{o} entered on a{a} after stopped()", idx)
            op = S.ops.get(o)
            if op is not None:
                op.begun = idx
                if op.aid is not None and op.aid != a:
                    S.bad("C15", f"o{o} was submitted through a handle to a{op.aid} but handled by a{a}", idx)
                # C01 real-time order
                missing = [p for p in op.pred if S.ops[p].begun is None]
                if missing:
                    S.bad("C01", f"o{o} handled on a{a} before o{missing[0]}, whose send had returned before o{o} was submitted", idx)
                if op.after_stop_ret and op.kind in SUBMITS:
                    S.bad("C04", f"o{o} was submitted after an accepted stop of a{a} had returned and is handled nevertheless", idx)
                if op.after_dead:
                    S.bad("C02", f"o{o} was submitted after a{a} terminated and is handled", idx)
            x.sends_ret_unbegun.discard(o)
        elif t == HEND:
            a, o, st = e[1], e[2], e[3]
            x = A.get(a)
            if x is None:
                continue
            if x.busy != o:
                S.bad("C01", f"handler end for o{o} on a{a} while handling {x.busy}", idx)
            x.busy = None
            op = S.ops.get(o)
            if op is not None:
                op.ended = st
                op.val = list(x.log)
            if st == 1 and not x.crashing:
                # abandoned by the timeout
                if x.timeout is None or x.stream:
                    S.bad("C11", f"handler of o{o} on a{a} abandoned although no timeout applies", idx)
                    if x.stream:
                        S.bad("C13", f"message o{o} on stream-attached a{a} was abandoned", idx)
                elif S.now != x.hbegin_time + x.timeout:
                    S.bad("C11", f"handler of o{o} abandoned at t={S.now}, limit was t={x.hbegin_time + x.timeout}", idx)
                x.abandoned_at = idx
                if x.failto:
                    x.failed = True
                    x.fatal_timeout = o
            if st == 0 and x.timeout is not None and not x.stream and S.now > x.hbegin_time + x.timeout:
                S.bad("C11", f"handler of o{o} completed at t={S.now} beyond the limit t={x.hbegin_time + x.timeout}", idx)
            if st == 2:
                x.failed = True
        elif t == PUSH:
            a = e[1]
            x = A.get(a)
            if x is None:
                continue
            if x.busy is None and x.in_cb is None:
                S.bad("C11", f"a{a} changed state outside any handler (an abandoned handler still running?)", idx)
                S.bad("C01", f"a{a} changed state outside any handler", idx)
            x.log.append(e[2])
        elif t == CBBEGIN:
            a, cb = e[1], e[2]
            x = A.get(a)
            if x is None:
                continue
            x.cbs.append(("b", cb, x.inc))
            if x.busy is not None or x.in_cb is not None:
                S.bad("C03", f"callback {cb} entered on a{a} while a handler or callback is running", idx)
            if x.dead is not None:
                S.bad("C03", f"callback {cb} entered on a{a} after its task ended", idx)
            x.in_cb = cb
            if cb == 0:
                if x.inc > 0 and not x.pending_restart:
                    S.bad("C03", f"started() called again on a{a} without a restart", idx)
                if x.inc > 0 and x.strat == 1:
                    x.log = []          # recreate-from-default: a fresh value is started
            if cb == 1:
                if x.stopped_cb_end is not None:
                    S.bad("C03", f"stopped() called twice on a{a}", idx)
                if x.stream and not x.pending_restart and not x.finished_done:
                    S.bad("C03", f"stopped() without finished() on stream-attached a{a}", idx)
                    S.bad("C13", f"stopped() without finished() on stream-attached a{a}", idx)
            if cb == 2:
                if getattr(x, 'finished_done', False):
                    S.bad("C13", f"finished() called twice on a{a}", idx)
        elif t == CBEND:
            a, cb, st = e[1], e[2], e[3]
            x = A.get(a)
            if x is None:
                continue
            x.in_cb = None
            if cb == 0:
                if st == 0:
                    x.inc += 1
                    x.pending_restart = False
                else:
                    x.failed = True
            elif cb == 1:
                if st != 0:
                    x.failed = True
                elif x.pending_restart:
                    x.restart_cut = idx
                    for tm in x.timers.values():
                        tm["cut"] = True
                else:
                    x.stopped_cb_end = idx
            elif cb == 2:
                x.finished_done = True
        elif t == DEQ:
            a, pk = e[1], e[2]
            x = A.get(a)
            if x is None:
                continue
            if x.busy is not None or x.in_cb is not None:
                S.bad("C01", f"a{a} took a message out of its mailbox while a handler or callback is running", idx)
            x.items_after_stop = 0
            if pk == 2 and not x.stream:
                if x.strat != 2:
                    x.pending_restart = True
            if pk == 1:
                x.deq_stop = True
            if pk == 0:
                x.deq_tasks = getattr(x, "deq_tasks", 0) + 1
        elif t == TASKEND:
            a, how = e[1], e[2]
            x = A.get(a)
            if x is None:
                continue
            x.dead, x.dead_at = how, idx
            x.graceful = (how == 0 and x.stopped_cb_end is not None and not x.failed)
            x.busy = None
            x.in_cb = None
            x.sends_ret_unbegun.clear()
            if how == 0 and not x.failed and x.stopped_cb_end is None:
                S.bad("C03", f"a{a} ended without stopped()", idx)
            # C05: an actor nobody stopped and that has not failed keeps running while strong handles exist
            if x.graceful and x.first_stop_op is None and not x.deq_stop and not x.stream_ended and x.strong > 0:
                S.bad("C05", f"a{a} terminated although {x.strong} strong handle(s) exist and nobody stopped it", idx)
                S.bad("C16", f"a{a} terminated although {x.strong} strong handle(s) exist and nobody stopped it", idx)
            # C05: the service registry is a strong holder too
            if x.graceful and x.first_stop_op is None and not x.deq_stop and not x.stream_ended:
                tys = [ty for ty, b in S.reg.items() if b == a]
                if tys and not any(r["ty"] in tys for r in S.reg_ops.values()) and not S.rlock:
                    S.bad("C05", f"a{a} terminated although the service registry holds it (type {tys[0]}) and nobody stopped it", idx)
                    S.bad("C08", f"a{a} terminated although it is registered for type {tys[0]} and nobody stopped it", idx)
            # C04 drain: everything whose send completed before any stop request was issued is handled
            # (whenever the loop returned without a failure, whatever callbacks it ran on the way out)
            if how == 0 and not x.failed and not x.crashing and not x.stream_ended:
                for op in S.ops.values():
                    if op.aid == a and op.must_handle and op.begun is None:
                        S.bad("C04", f"a{a} stopped gracefully without handling o{op.o}, whose send completed before any stop request", idx)
                        S.bad("C05", f"a{a} stopped gracefully without handling accepted message o{op.o}", idx)
            # children are released with the parent
            for (ty, hid) in x.children:
                if hid in S.h:
                    ca, k = S.h.pop(hid)
                    if ca in A:
                        A[ca].strong -= 1
        elif t == CRASH:
            x = A.get(e[1])
            if x:
                x.crashing = True
                x.failed = True
        elif t == TIMERREG:
            a, k, kind, d = e[1:5]
            x = A.get(a)
            if x:
                x.timers[k] = {"kind": kind, "d": d, "reg": S.now, "last": None, "n": 0, "cut": False, "ended": False}
        elif t == TICK or t == EXEC:
            a, k = e[1], e[2]
            x = A.get(a)
            if not x or k not in x.timers:
                continue
            tm = x.timers[k]
            base = tm["last"] if tm["last"] is not None else tm["reg"]
            if S.now < base + tm["d"]:
                S.bad("C10", f"timer {k} of a{a} fired at t={S.now}, not before t={base + tm['d']} allowed", idx)
            if tm["kind"] == 0 and S.now != base + tm["d"] and x.dead is None:
                S.bad("C10", f"interval timer {k} of a{a} (period {tm['d']}) fired at t={S.now} instead of t={base + tm['d']}", idx)
            if tm.get("armed") is not None and S.now < tm["armed"] + tm["d"]:
                S.bad("C10", f"timer {k} of a{a} (period {tm['d']}) began its sleep at t={tm['armed']} - after its previous submission had returned - and fires at t={S.now}, before a full period has passed", idx)
            if tm["kind"] in (2, 3) and tm["n"] >= 1:
                S.bad("C10", f"delayed timer {k} of a{a} fired twice", idx)
            if x.dead is not None:
                S.bad("C10", f"timer {k} of a{a} fired after the actor terminated", idx)
                if not x.graceful:
                    S.bad("C06", f"timer {k} of failed a{a} fired after its death", idx)
            if tm["cut"]:
                S.bad("C07", f"timer {k} of a{a}, registered by an earlier incarnation, fired after the restart", idx)
            tm["last"] = S.now
            tm["n"] += 1
        elif t == TIMERSLEEP:
            x = A.get(e[1])
            if x and e[2] in x.timers:
                x.timers[e[2]]["armed"] = S.now
        elif t == TIMEREND:
            a, k = e[1], e[2]
            x = A.get(a)
            if x and k in x.timers:
                x.timers[k]["ended"] = True
        elif t == YIELD:
            a, i = e[1], e[2]
            x = A.get(a)
            if x:
                if i != x.yielded:
                    S.bad("C13", f"stream of a{a} yielded item {i}, expected {x.yielded}", idx)
                x.yielded = i + 1
                x.pending_item = i
        elif t == ITEMBEGIN:
            a, i = e[1], e[2]
            x = A.get(a)
            if x:
                if x.busy is not None or x.in_cb is not None:
                    S.bad("C13", f"item {i} handled on a{a} while another handler runs", idx)
                    S.bad("C01", f"item {i} handled on a{a} while {x.busy} is being handled", idx)
                if i != x.items_done:
                    S.bad("C13", f"a{a} handles item {i}, expected item {x.items_done} (every item once, in order)", idx)
                if x.inc == 0:
                    S.bad("C03", f"item handled on a{a} before started() completed", idx)
                x.busy = ("item", i)
        elif t == ITEMEND:
            a, i, st = e[1], e[2], e[3]
            x = A.get(a)
            if x:
                x.busy = None
                x.items_done = i + 1
                # C13: an explicit stop or the last handle drop terminates it even if the stream never ends.
                # The loop picks between mailbox and stream at random, so a mailbox from which nothing
                # is taken during 40 consecutive items (probability 2^-40) is starved. (Items between
                # dequeues are legitimate: the stop request may be behind a long backlog.)
                if (x.stop_accepted_ret is not None or x.strong <= 0) and x.dead is None:
                    x.items_after_stop = getattr(x, "items_after_stop", 0) + 1
                    if x.items_after_stop == 40:
                        S.bad("C13", f"a{a} handled 40 stream items in a row without taking anything out of its mailbox after a stop request was accepted / its last strong handle was dropped, and still runs", idx)
                        S.bad("C04", f"a{a} keeps handling stream items after an accepted stop request", idx)
                if st == 1 and not x.crashing:
                    S.bad("C13", f"item {i} on a{a} abandoned", idx)
                if st == 2:
                    x.failed = True
        elif t == STREAMEND:
            x = A.get(e[1])
            if x:
                x.stream_ended = True
        elif t == JOINNEW:
            a, k = S.h.get(e[2], (None, None))
            S.joins[e[1]] = a
        elif t == CHILDADD:
            x = A.get(e[1])
            if x:
                x.children.append((e[2], e[3]))
        elif t == BCASTBEGIN:
            x = A.get(e[1])
            if x:
                exp = [hid for (ty, hid) in x.children if ty == e[2]]
                S.bc = {"a": e[1], "ty": e[2], "exp": exp, "got": []}
        elif t == BCAST:
            if S.bc and S.bc["a"] == e[1]:
                S.bc["got"].append(e[3])
                S.ops[e[3]] = Op(e[3], None, None, "bcast", None, None, idx, S.now)
                S.ops[e[3]].bc = S.bc
        elif t == QUERY:
            c, hid, running, b = e[1:5]
            a, k = S.h.get(hid, (None, None))
            x = A.get(a)
            if x:
                stopped = x.dead is not None
                said_stopped = (not b) if running else bool(b)
                if said_stopped != stopped:
                    S.bad("C14", f"{'running' if running else 'stopped'}() on h{hid} said {bool(b)} although a{a} {'has terminated' if stopped else 'is running'}", idx)
                    if stopped and not x.graceful:
                        S.bad("C06", f"liveness query on failed a{a} says it is running", idx)
        elif t == REG:
            o, c, k, ty, hid = e[1:6]
            S.uses_registry = True
            a = S.h.get(hid, (None, None))[0] if k in (2, 3) else None
            S.reg_ops[o] = {"k": k, "ty": ty, "a": a, "idx": idx}
            S.rpend += 1
        elif t == 49:
            # the caller dropped the call's future: the operation is over for the client
            op = S.ops.get(e[1])
            if op is not None and op.ret is None:
                op.ret, op.ret_idx = (R_SKIP,), idx
        elif t == 48:
            # C07: a restart keeps the actor's identity
            if not e[2]:
                S.bad("C07", f"a{e[1]} was restarted into a context with a different id: handles, subscriptions and child entries issued before no longer name this actor", idx)
                S.bad("C15", f"a{e[1]} changed its identity at a restart", idx)
        elif t == PROBE:
            x = A.get(e[1])
            if x:
                x.probes = getattr(x, "probes", 0) + 1
        elif t == QUIESCE:
            final_checks(S, idx)
    return S


def live(S, ty):
    a = S.reg.get(ty)
    if a is not None and S.actors[a].dead is None:
        return a
    return None


def reg_ret(S, o, e, idx):
    """C08 / C14: the registry operations, taking effect at their return, against the sequential spec"""
    r = S.reg_ops.pop(o)
    k, ty = r["k"], r["ty"]
    rv = rval(e)
    S.rpend -= 1
    inst = (rv[1][0] - 1 if rv[1] and rv[1][0] > 0 else None) if rv[0] == R_INST else None
    A = S.actors
    cur = S.reg.get(ty)
    if k in (0, 1):  # from_registry / setup
        if S.rlock:
            S.rlock = False
            want = S.reg.get(ty)
        else:
            want = live(S, ty)
            if want is None:
                S.bad("C08", f"lookup of type {ty} returned without a live registered instance and without spawning one", idx)
                S.bad("C14", f"lookup of type {ty} returned although the registered instance has terminated", idx)
        if k == 0 and rv[0] == R_INST and inst != want:
            S.bad("C08", f"from_registry of type {ty} returned a{inst}, the registered live instance is a{want}", idx)
            if inst is not None and A[inst].dead is not None:
                S.bad("C14", f"from_registry returned terminated a{inst}", idx)
    elif k == 2:  # register
        l = live(S, ty)
        if l is not None:
            if rv[0] != R_ERR:
                S.bad("C08", f"register succeeded although live a{l} is registered for type {ty}", idx)
                if rv[0] == R_INST:
                    S.reg[ty] = r["a"]
        else:
            if rv[0] == R_ERR:
                S.bad("C08", f"register failed although no live instance is registered for type {ty}", idx)
                if cur is not None:
                    S.bad("C14", f"register refused although registered a{cur} has terminated", idx)
            else:
                if inst != cur:
                    S.bad("C08", f"register returned a{inst} as the replaced entry, it was a{cur}", idx)
                S.reg[ty] = r["a"]
    elif k == 3:  # replace
        if rv[0] == R_INST and inst != cur:
            S.bad("C08", f"replace returned a{inst} as the previous entry, it was a{cur}", idx)
        S.reg[ty] = r["a"]
    elif k == 4:  # unregister
        if rv[0] == R_INST and inst != cur:
            S.bad("C08", f"unregister returned a{inst}, the entry was a{cur}", idx)
        S.reg.pop(ty, None)
    elif k == 5:  # try_from_registry
        l = live(S, ty)
        if inst is not None and inst != l:
            S.bad("C08", f"try_from_registry of type {ty} returned a{inst}, live registered instance is a{l}", idx)
            if A[inst].dead is not None:
                S.bad("C14", f"try_from_registry returned terminated a{inst}", idx)
        if inst is None and l is not None and not S.rlock and S.rpend == 0:
            S.bad("C08", f"try_from_registry of type {ty} returned None although a{l} is registered and alive and the registry is idle", idx)
    elif k == 6:  # already_running
        code = rv[1][0] if rv[0] == R_OPTBOOL else None
        want = 0 if cur is None else (2 if A[cur].dead is None else 1)
        if code != want:
            names = ["None", "Some(false)", "Some(true)"]
            S.bad("C08", f"already_running of type {ty} said {names[code] if code is not None else code}, expected {names[want]}", idx)
            if cur is not None:
                S.bad("C14", f"already_running of type {ty} said {names[code] if code is not None else code} for a{cur} which {'has terminated' if A[cur].dead is not None else 'is alive'}", idx)


def unheld_alive(S, x):
    """x is alive, idle and started, and nothing holds it strongly: no handle anywhere, not the
    registry, no parent's child list. Evaluated where the executor is idle (clock / quiescence):
    then its mailbox is empty and no submission is under way, so only a leaked strong reference
    (a timer, a subscription, the context) can be keeping it alive."""
    A = S.actors
    if x.dead is not None or x.strong > 0 or x.registry_held or x.inc == 0 or x.busy is not None or x.in_cb is not None or x.entry == 6:
        return False
    if S.uses_registry or any(hid in S.h for (_, hid) in x.children):
        return False
    holders = [p for p in A.values() if any(S.h.get(hid, (None,))[0] == x.aid for (_, hid) in p.children) and p.dead is None]
    return not holders


def clock_checks(S, idx):
    """the executor is idle and about to advance the clock"""
    for x in S.actors.values():
        if unheld_alive(S, x) and not x.stream:
            live_timers = [k for k, tm in x.timers.items() if not tm["ended"]]
            S.bad("C05", f"a{x.aid} is still running when the clock advances although no strong handle to it exists any more" + (f" (live timer tasks: {live_timers})" if live_timers else ""), idx)
            if live_timers:
                S.bad("C10", f"a{x.aid} outlives its last strong handle while only its timer tasks {live_timers} exist: a timer keeps the actor alive", idx)


def final_checks(S, idx):
    A = S.actors
    for op in S.ops.values():
        x = A.get(op.aid)
        if x is None or op.kind in ("bcast",):
            continue
        if op.ret is None and x.dead is not None and op.kind != K_JOIN:
            S.bad("C02", f"operation o{op.o} on terminated a{op.aid} never resolved", idx)
            if not x.graceful:
                S.bad("C06", f"operation o{op.o} on failed a{op.aid} never resolved", idx)
        if op.ret is None and op.kind == K_JOIN and x.dead is not None:
            S.bad("C17", f"join o{op.o} of terminated a{op.aid} never resolved", idx)
            S.bad("C02", f"join o{op.o} of terminated a{op.aid} never resolved", idx)
        if op.ret is None and op.kind == K_SEND and x.dead is None and x.busy is None and x.in_cb is None:
            S.bad("C12", f"send o{op.o} never returned although a{op.aid} is idle", idx)
    hb = defaultdict(int)
    for o in S.handled:
        pass
    for x in A.values():
        if x.entry == 6 and x.ty == 9:
            continue          # a library actor (broker): its messages are not client operations
        n_deq = getattr(x, "deq_tasks", 0)
        n_h = getattr(x, "hbegins", 0)
        n_ping = sum(1 for op in S.ops.values() if op.aid == x.aid and op.kind == K_PING) + getattr(x, "probes", 0)
        if n_deq > n_h + n_ping and not x.crashing:
            S.bad("C13" if x.stream else "C01", f"a{x.aid} took {n_deq} messages out of its mailbox but entered only {n_h} handlers (and at most {n_ping} pings were answered): a message that had left the mailbox was dropped unhandled", idx)
            S.bad("C02", f"a{x.aid} took {n_deq} messages out of its mailbox but entered only {n_h} handlers: an accepted message was dropped", idx)
    for x in A.values():
        if x.dead is not None:
            for k, tm in x.timers.items():
                if not tm["ended"]:
                    S.bad("C10", f"timer task {k} of terminated a{x.aid} is still alive at quiescence", idx)
        else:
            # still alive at quiescence: somebody must hold it
            if unheld_alive(S, x):
                S.bad("C05", f"a{x.aid} is still running at quiescence without any strong handle", idx)
            if x.stream and x.stream_ended:
                S.bad("C13", f"stream of a{x.aid} ended but the actor did not terminate", idx)
        # broadcasts: exactly one copy per registered child of that type
    return


PROPS = ["C01", "C02", "C03", "C04", "C05", "C06", "C07", "C08", "C09", "C10", "C11", "C12", "C13", "C14", "C15", "C16", "C17"]


def violations(tr):
    """property id -> list of violation messages for this trace"""
    try:
        S = run(tr)
    except Exception as ex:  # a malformed trace is the correspondence check's business, not ours
        return {"_error": [repr(ex)]}
    c16_broadcast(tr, S)
    c09_broker(tr, S)
    return dict(S.v)


def c16_broadcast(tr, S):
    children = defaultdict(list)   # parent -> [(ty, hid)]
    handle_actor = {}
    alive_parent = set()
    cur = None
    for idx, e in enumerate(tr):
        t = e[0]
        if t == HANDLE:
            handle_actor[e[1]] = e[2]
        elif t == CHILDADD:
            children[e[1]].append((e[2], e[3]))
        elif t == TASKEND:
            children.pop(e[1], None)
        elif t == BCASTBEGIN:
            exp = [handle_actor.get(h) for (ty, h) in children[e[1]] if ty == e[2]]
            cur = {"a": e[1], "ty": e[2], "exp": exp, "ops": [], "idx": idx}
        elif t == BCAST and cur and cur["a"] == e[1]:
            cur["ops"].append(e[3])
        elif cur is not None and t in (HEND,) and e[1] == cur["a"]:
            if len(cur["ops"]) != len(cur["exp"]):
                S.bad("C16", f"send_to_children of a{cur['a']} for type {cur['ty']} made {len(cur['ops'])} submissions, {len(cur['exp'])} children are registered under that type", cur["idx"])
            cur["done"] = True
            # remember to compare receivers
            S.__dict__.setdefault("bcasts", []).append(cur)
            cur = None
    # receivers: every submission is handled by a distinct expected child (if handled at all)
    where = {}
    for e in tr:
        if e[0] == HBEGIN:
            where[e[2]] = e[1]
    for b in S.__dict__.get("bcasts", []):
        got = [where[o] for o in b["ops"] if o in where]
        exp = list(b["exp"])
        for g in got:
            if g in exp:
                exp.remove(g)
            else:
                S.bad("C16", f"a broadcast of a{b['a']} for type {b['ty']} was handled by a{g}, which is not a (remaining) child under that type", b["idx"])
        # exactly once to *every* child: a child nobody stopped, alive at the broadcast, that ended
        # gracefully has handled its copy (copies are made in the order of the child list)
        if len(b["ops"]) == len(b["exp"]):
            for o, c in zip(b["ops"], b["exp"]):
                x = S.actors.get(c)
                if x is None or o in where:
                    continue
                if (x.graceful and x.first_stop_op is None and not x.deq_stop and not x.stream_ended
                        and x.dead_at is not None and x.dead_at > b["idx"]):
                    S.bad("C16", f"child a{c} (registered under type {b['ty']}, never stopped) ended gracefully without handling its copy o{o} of the broadcast of a{b['a']}", b["idx"])


BROKER, TOPIC_OP, TOPIC_RET = 44, 45, 46


def c09_broker(tr, S):
    """C09 on the implementation's trace: client-side stamps of publish / subscribe / unsubscribe,
    the broker's probes (table, fan-out windows, held senders) and the handling of clones."""
    if not any(e[0] in (TOPIC_OP, PUBCOPY, BROKER) for e in tr):
        return
    bad = lambda msg, idx: S.bad("C09", msg, idx)
    hk = {}                      # handle -> (actor, strong?)
    strong = defaultdict(int)
    dead = {}                    # actor -> index of TaskEnd
    tops = {}                    # o -> dict(kind, topic, x, begin, ret, ok, c)
    table = defaultdict(list)    # broker -> subscribers in its table
    fan = {}                     # broker -> dict(begin, table0, must, held, copies)
    copy_of = {}                 # clone o' -> (actor, src, topic)
    seen = defaultdict(list)     # (actor, topic) -> [src] in handling order
    complete = any(e[0] == QUIESCE for e in tr) and not any(e[0] == BUDGET for e in tr)
    busy = defaultdict(int)      # actor -> handlers / callbacks running
    flagged = set()

    def quiet_check(idx):
        # The executor is idle. If no fan-out is under way, every broker has emptied its mailbox
        # (it would be runnable otherwise), so every publication whose publish returned has been
        # fanned out; an idle subscriber has emptied its mailbox too. A subscriber whose
        # subscription completed before the publish began, never asked to be unsubscribed, alive
        # and strongly held, must therefore have handled it by now.
        if fan:
            return
        for o, p in tops.items():
            if p["kind"] != 0 or not p["ok"] or p["ret"] is None:
                continue
            for q in tops.values():
                if q["kind"] == 1 and q["topic"] == p["topic"] and q["ok"] and q["ret"] is not None and q["ret"] < p["begin"]:
                    a = q["x"]
                    if (o, a) in flagged or a in dead or strong[a] <= 0 or busy[a] > 0:
                        continue
                    if any(u["kind"] == 2 and u["topic"] == p["topic"] and u["x"] == a for u in tops.values()):
                        continue
                    if o not in seen[(a, p["topic"])]:
                        flagged.add((o, a))
                        bad(f"publication o{o} on topic {p['topic']} returned Ok at event {p['ret']}, the brokers and a{a} are idle, yet a{a} - whose subscription completed before the publish began and which is alive and strongly held - has not handled it: the publication was lost", idx)
                        # C06: the failure of one subscriber must not cost another one its publications
                        failed = [u["x"] for u in tops.values() if u["kind"] == 1 and u["topic"] == p["topic"] and u["x"] in dead
                                  and S.actors.get(u["x"]) is not None and S.actors[u["x"]].graceful is False]
                        if failed:
                            S.bad("C06", f"a{failed[0]} failed, and healthy subscriber a{a} of the same topic lost publication o{o}: the failure of one actor leaks into another", idx)

    for idx, e in enumerate(tr):
        t = e[0]
        if t in (CLOCK, QUIESCE):
            quiet_check(idx)
        elif t in (HBEGIN, CBBEGIN, ITEMBEGIN):
            busy[e[1]] += 1
        elif t in (HEND, CBEND, ITEMEND):
            busy[e[1]] = max(0, busy[e[1]] - 1)
        if t == HANDLE:
            hk[e[1]] = (e[2], e[3] in STRONG)
            if e[3] in STRONG:
                strong[e[2]] += 1
        elif t == DROP:
            a, st = hk.pop(e[1], (None, False))
            if st:
                strong[a] -= 1
        elif t == TASKEND:
            dead[e[1]] = idx
        elif t == TOPIC_OP:
            tops[e[1]] = {"c": e[2], "kind": e[3], "topic": e[4], "x": e[5], "begin": idx, "ret": None, "ok": None}
        elif t == TOPIC_RET:
            if e[1] in tops:
                tops[e[1]]["ret"] = idx
                tops[e[1]]["ok"] = bool(e[2])
        elif t == BROKER:
            b, what, a, h = e[1], e[2], e[3], e[4]
            if what == 4:
                if a not in table[b]:
                    table[b].append(a)
            elif what == 5:
                if a in table[b]:
                    table[b].remove(a)
            elif what == 0:
                if b in fan:
                    bad(f"broker a{b} starts a fan-out while another one is under way", idx)
                src = e[3] - 1 if e[3] > 0 else None
                p = tops.get(src)
                must = []
                if p is not None:
                    # subscription completed before the publish began, nobody asked to unsubscribe it so far,
                    # task running and strongly held right now: must be served by this fan-out
                    for q in tops.values():
                        if q["kind"] == 1 and q["topic"] == p["topic"] and q["ok"] and q["ret"] is not None and q["ret"] < p["begin"]:
                            x = q["x"]
                            if x in dead or strong[x] <= 0 or x in must:
                                continue
                            if any(u["kind"] == 2 and u["topic"] == p["topic"] and u["x"] == x for u in tops.values()):
                                continue
                            must.append(x)
                fan[b] = {"begin": idx, "must": must, "held": [], "copies": defaultdict(int), "src": src}
            elif what == 1 and b in fan:
                fan[b]["held"].append(a)
            elif what == 3 and b in fan:
                f = fan.pop(b)
                for x in f["must"]:
                    if f["copies"][x] == 0:
                        bad(f"a{x}, whose subscription completed before publication o{f['src']} began and which is running and strongly held, was not served by the fan-out of that publication (events {f['begin']}..{idx})", idx)
                for x, n in f["copies"].items():
                    if n > 1:
                        bad(f"subscriber a{x} was sent {n} clones of one publication by broker a{b}", idx)
        elif t == PUBCOPY:
            topic, o2, v, src = e[1], e[2], e[3], e[4]
            b, h = (e[5], e[6]) if len(e) > 6 else (None, None)
            a = hk.get(h, (None, False))[0] if h is not None else None
            copy_of[o2] = (a, src, topic)
            if b in fan and a is not None:
                f = fan[b]
                f["copies"][a] += 1
                if f["src"] not in (None, src):
                    bad(f"one fan-out of broker a{b} clones two different publications (o{f['src']} and o{src})", idx)
                f["src"] = src
            p = tops.get(src)
            if p is not None and a is not None:
                subs = [q for q in tops.values() if q["kind"] == 1 and q["topic"] == topic and q["x"] == a and q["begin"] < idx]
                if not subs:
                    bad(f"publication o{src} on topic {topic} is delivered to a{a}, which never subscribed to it", idx)
                else:
                    last_sub_ret = max((q["ret"] if q["ret"] is not None else 10 ** 9) for q in subs)
                    for u in tops.values():
                        if u["kind"] == 2 and u["topic"] == topic and u["x"] == a and u["ret"] is not None and u["ok"] \
                                and u["ret"] < p["begin"] and last_sub_ret < u["begin"]:
                            bad(f"publication o{src} is delivered to a{a} although its unsubscribe (o{[k for k, q in tops.items() if q is u][0]}) completed before the publish began", idx)
                            break
        elif t == HBEGIN and e[2] in copy_of:
            a, src, topic = copy_of[e[2]]
            if a is not None and a != e[1]:
                bad(f"clone o{e[2]} made for a{a} is handled by a{e[1]}", idx)
            if src in seen[(e[1], topic)]:
                bad(f"a{e[1]} handles publication o{src} twice", idx)
            seen[(e[1], topic)].append(src)
    # one common order that extends every publisher's own order
    pos = {}
    for (a, topic), l in seen.items():
        for i, src in enumerate(l):
            pos[(a, topic, src)] = i
    keys = list(seen.keys())
    for i in range(len(keys)):
        for j in range(i + 1, len(keys)):
            (a1, t1), (a2, t2) = keys[i], keys[j]
            if t1 != t2:
                continue
            common = [x for x in seen[keys[i]] if x in seen[keys[j]]]
            other = [x for x in seen[keys[j]] if x in seen[keys[i]]]
            if common != other:
                bad(f"a{a1} and a{a2} see the publications of topic {t1} in different orders: {common} vs {other}", len(tr) - 1)
    for (a, topic), l in seen.items():
        for i in range(len(l)):
            for j in range(i + 1, len(l)):
                p1, p2 = tops.get(l[i]), tops.get(l[j])
                if p1 and p2 and p2["ret"] is not None and p2["ret"] < p1["begin"]:
                    bad(f"a{a} handles publication o{l[i]} before o{l[j]}, although o{l[j]} had returned before o{l[i]} was published", len(tr) - 1)
    # client-level completeness: subscribed (completed) before the publish began, never asked to unsubscribe,
    # strongly held and running until the end of the run: must have handled it
    if complete:
        for o, p in tops.items():
            if p["kind"] != 0 or not p["ok"]:
                continue
            for q in tops.values():
                if q["kind"] == 1 and q["topic"] == p["topic"] and q["ok"] and q["ret"] is not None and q["ret"] < p["begin"]:
                    a = q["x"]
                    if a in dead or strong[a] <= 0:
                        continue
                    if any(u["kind"] == 2 and u["topic"] == p["topic"] and u["x"] == a for u in tops.values()):
                        continue
                    if o not in seen[(a, p["topic"])]:
                        bad(f"a{a}, whose subscription to topic {p['topic']} completed before publication o{o} began and which is alive and held to the end, never handled it", len(tr) - 1)
