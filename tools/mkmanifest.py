#!/usr/bin/env python3
"""Regenerate MANIFEST.json from tools/propcfg.py (claimed properties) and properties.jsonl."""
import json, os, sys
ROOT = os.path.dirname(os.path.dirname(os.path.abspath(__file__)))
sys.path.insert(0, os.path.join(ROOT, "tools"))
from propcfg import PROPS, MANIFEST_TEXT, NOT_APPLICABLE
props = [json.loads(l) for l in open(os.path.join(ROOT, "properties.jsonl"))]
hook_commits = ["052d655", "c190402", "d464e7e", "2a252e6"]
checks = []
for p in props:
    pid = p["id"]
    if pid not in PROPS:
        continue
    t = MANIFEST_TEXT[pid]
    checks.append({
        "property_id": pid,
        "quick_cmd": f"./check {pid} --tier quick",
        "thorough_cmd": f"./check {pid} --tier thorough",
        "evidence_file": f"/verif/evidence/{pid}.json",
        "replay_cmd_template": "./check replay {path}",
        "engine": "coq-model+correspondence",
        "level_claimed": {"category": "proof", "text": t["text"], "design_ref": t.get("design_ref", "DESIGN.md section 6")},
        "level_note": t["note"],
        "technique": t["technique"],
    })
na = [{"property_id": p["id"], "reason": NOT_APPLICABLE.get(p["id"], "check not built yet (work in progress, see DESIGN.md section 10)")} for p in props if p["id"] not in PROPS]
m = {
    "version": 1,
    "setup_cmd": "./check setup",
    "hooks": {
        "guard": "hannibal_verif",
        "enable": "RUSTFLAGS=\"--cfg hannibal_verif\" (set by ./check when it builds harness/ against /repo)",
        "baseline_off_cmd": "cd /repo && cargo nextest run --workspace --no-fail-fast --offline --test-threads 8",
        "source_commits": hook_commits,
        "add_only": True,
    },
    "engines": [{"name": "coq-model+correspondence", "path": "/verif/check", "serves_properties": [c["property_id"] for c in checks],
                 "kind_free_text": "Coq 8.16 model (executable acceptor) + theorems; extracted OCaml runner; Rust harness running the real library on a deterministic executor; per-property acceptors run on implementation traces"}],
    "checks": checks,
    "notes": "see DESIGN.md; ./check <id> rebuilds the Coq development, the extracted runner and the harness (against /repo's working tree) as needed",
    "not_applicable": na,
}
json.dump(m, open(os.path.join(ROOT, "MANIFEST.json"), "w"), indent=1)
print("claimed:", [c["property_id"] for c in checks])
