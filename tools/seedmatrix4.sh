#!/bin/bash
# the round-4 seeded changes against the quick check of the property each was written to break; results in notes/seed-matrix-round4.txt
cd /verif
out=notes/seed-matrix-round4.txt; : > $out
run() { tools/seedrun.sh "$@" 2>&1 | grep -E "exit=|^C[0-9]+:" | cut -c1-330 >> $out; }
run C02-halt-after-death-says-ok C02
run C04-notifier-releases-on-drop C04
run C05-stream-loop-ignores-closed-mailbox C05
run C06-old-timers-retired-after-restart-started C06
run C08-liveness-peek-only C08
run C12-context-sender-never-waits C12
run C14-registry-peeks-instead-of-polling C14
run C16-broadcast-in-background-task C16
echo DONE >> $out
