#!/bin/bash
# usage: seedtest.sh <seeded-dir-name> <n> family...   run a seeded change on a scratch copy of /repo (nothing in /repo is touched)
name=$1; n=$2; shift 2
M=/tmp/mut-$name; rm -rf $M; mkdir -p $M
rsync -a --exclude target --exclude .git /repo/ $M/repo/
(cd $M/repo && patch -p1 -s < /verif/seeded/$name/patch.diff) || { echo "PATCH FAILED $name"; exit 2; }
rsync -a --exclude target /verif/harness/ $M/harness/
sed -i "s#path = \"/repo\"#path = \"$M/repo\"#" $M/harness/Cargo.toml
(cd $M/harness && RUSTFLAGS="--cfg hannibal_verif" cargo build --offline --target-dir /tmp/mut-target 2>&1 | grep -E "^error" -A 8 | head -20)
for f in "$@"; do
  timeout 600 /tmp/mut-target/debug/hvharness gen $f 5 0 $n $M/$f >/dev/null 2>&1
  res=$(/verif/runner/runner $M/$f.traces | awk '{print $2,$3,$5}' | sort | uniq -c | sort -rn | tr '\n' ';')
  echo "$name $f: $res"
  python3 /verif/tools/montest.py $M/$f.traces | head -4
done
rm -rf $M
