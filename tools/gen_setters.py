#!/usr/bin/env python3
"""Authoring aid (not part of any check): print explicit setter definitions for a Coq record.
usage: gen_setters.py Ctor prefix field1 field2 ...   -> `Definition set_<f> (v) (r)` for each field"""
import sys
ctor, recname = sys.argv[1], sys.argv[2]
fields = sys.argv[3:]
for f in fields:
    body = "; ".join(f"{g} := {'v' if g == f else g + ' r'}" for g in fields)
    print(f"Definition set_{f} v (r : {recname}) : {recname} := {{| {body} |}}.")
