#!/usr/bin/env python3
"""Signature translator for property C19 ("misuse is rejected by the compiler").

    python3 sigs.py /repo > table.json          table of the public API's trait bounds, as atoms
    python3 sigs.py /repo --self-test           check the table against /verif/typing/catalogue.json

The bounds are parsed straight from the source TEXT of the files in FILES: for every public method
(inherent impls, public trait definitions, `From` / `RestartStrategy` impls) the atoms demanded by
  generics + `where` of the method  +  generics + `where` + self type of the enclosing impl / trait.
Vocabulary: Handler(A,M)  RespUnit(M)  Restartable(A)  HasDefault(A)  StreamHandler(A,Item)  IsService(A)
  StrategyIs(X)  Clone(M)  SameMsg, plus two derived atoms: IntoSender(M) (an `impl Into<Sender<M>>` argument)
  and SameActor (the returned address handle has the actor parameter of the handle it was made from).
Names are canonical: the actor is A (also `Self` in traits), the message M (also broker.rs's `T`), a stream's
item type is Item.  Anything the parser does not understand raises ParseError (exit 2); nothing is skipped
silently: macro bodies and cfg-disabled items are listed under "skipped", non-emitted impls under "omitted".
"""
import glob, json, os, re, sys

FILES = ["src/addr.rs", "src/addr/*.rs", "src/context.rs", "src/broker.rs", "src/actor/builder.rs",
         "src/actor/spawner.rs", "src/actor/service.rs", "src/actor/restart_strategy.rs"]
DEFAULT_FEATURES = {"tokio_runtime", "tokio", "runtime"}          # /repo/Cargo.toml [features] default
IGNORABLE = {"Actor", "Send", "Sync", "Sized", "Unpin", "Spawner", "RestartStrategy", "Stream", "Future",
             "Fn", "FnMut", "FnOnce", "DynClone", "Spawnable", "Any", "Copy", "Debug"}
EMIT_TRAIT_IMPLS = {"From", "RestartStrategy"}
IDENT = r"[A-Za-z_][A-Za-z0-9_]*"


class ParseError(Exception):
    pass


# ------------------------------------------------------------------ lexical helpers
def clean(src):
    """blank out comments and the contents of string / char literals; offsets and newlines are preserved"""
    out, i, n = list(src), 0, len(src)

    def blank(a, b):
        for k in range(a, b):
            if out[k] != "\n":
                out[k] = " "
    while i < n:
        c = src[i]
        if src.startswith("//", i):
            j = src.find("\n", i)
            j = n if j < 0 else j
            blank(i, j)
            i = j
        elif src.startswith("/*", i):
            depth, j = 1, i + 2
            while depth and j < n:
                if src.startswith("/*", j):
                    depth, j = depth + 1, j + 2
                elif src.startswith("*/", j):
                    depth, j = depth - 1, j + 2
                else:
                    j += 1
            if depth:
                raise ParseError("unterminated block comment")
            blank(i, j)
            i = j
        elif c == '"' or (c == "r" and re.match(r'r#*"', src[i:]) and not re.match(r"\w", src[i - 1:i] or " ")):
            if c == "r":
                hashes = re.match(r'r(#*)"', src[i:]).group(1)
                start = i + 2 + len(hashes)
                j = src.find('"' + hashes, start)
                if j < 0:
                    raise ParseError("unterminated raw string")
                blank(start, j)
                i = j + 1 + len(hashes)
            else:
                j = i + 1
                while j < n and src[j] != '"':
                    j += 2 if src[j] == "\\" else 1
                if j >= n:
                    raise ParseError("unterminated string")
                blank(i + 1, j)
                i = j + 1
        elif c == "'":
            m = re.match(r"'(\\.[^']*|[^\\'])'", src[i:])
            if m:                       # char literal, otherwise a lifetime
                blank(i + 1, i + m.end() - 1)
                i += m.end()
            else:
                i += 1
        else:
            i += 1
    return "".join(out)


OPEN, CLOSE = "([{", ")]}"


def split_top(s, sep):
    """split on `sep` (one char) outside of () [] {} <>; `->` and `=>` do not close an angle bracket"""
    parts, depth, cur, i = [], 0, [], 0
    while i < len(s):
        c = s[i]
        if s.startswith("->", i) or s.startswith("=>", i):
            cur.append(s[i:i + 2])
            i += 2
            continue
        if c in OPEN or c == "<":
            depth += 1
        elif c in CLOSE or c == ">":
            depth -= 1
            if depth < 0:
                raise ParseError(f"unbalanced bracket in {s!r}")
        if c == sep and depth == 0:
            parts.append("".join(cur))
            cur = []
        else:
            cur.append(c)
        i += 1
    if depth:
        raise ParseError(f"unbalanced bracket in {s!r}")
    parts.append("".join(cur))
    return [p.strip() for p in parts]


def find_word_top(s, word):
    """offset of keyword `word` at bracket depth 0 in s, or -1"""
    depth, i = 0, 0
    while i < len(s):
        c = s[i]
        if s.startswith("->", i) or s.startswith("=>", i):
            i += 2
            continue
        if c in OPEN or c == "<":
            depth += 1
        elif c in CLOSE or c == ">":
            depth -= 1
        elif depth == 0 and re.match(rf"\b{word}\b", s[i:]) and not re.match(r"\w", s[i - 1:i] or " "):
            return i
        i += 1
    return -1


def squeeze(s):
    return re.sub(r"\s+", "", s)


# ------------------------------------------------------------------ bounds -> atoms
def parse_generics(g):
    """'<A: X + Y, 'a, P>' (without the angle brackets) -> (type params, [(subject, bound)])"""
    params, preds = [], []
    for p in split_top(g, ","):
        if not p:
            continue
        if p.startswith("const "):
            raise ParseError(f"const generic not supported: {p!r}")
        if p.startswith("'"):
            continue
        head = split_top(p, "=")[0]
        name, _, bounds = head.partition(":")
        name = name.strip()
        if not re.fullmatch(IDENT, name):
            raise ParseError(f"cannot parse generic parameter {p!r}")
        params.append(name)
        preds += [(name, b) for b in split_top(bounds, "+") if b]
    return params, preds


def parse_where(w):
    preds = []
    for clause in split_top(w, ","):
        if not clause:
            continue
        parts = split_top_colon(clause)
        if parts is None:
            raise ParseError(f"cannot parse where-predicate {clause!r}")
        subj, bounds = parts
        preds += [(subj, b) for b in split_top(bounds, "+") if b]
    return preds


def split_top_colon(s):
    """split `Subject: Bounds` at the first single ':' at depth 0 (not a `::`)"""
    depth, i = 0, 0
    while i < len(s):
        c = s[i]
        if s.startswith("->", i) or s.startswith("::", i):
            i += 2
            continue
        if c in OPEN or c == "<":
            depth += 1
        elif c in CLOSE or c == ">":
            depth -= 1
        elif c == ":" and depth == 0:
            return s[:i].strip(), s[i + 1:].strip()
        i += 1
    return None


def atoms_of(subject, bound):
    b = squeeze(bound)
    subject = squeeze(subject)
    if b.startswith("'") or b == "?Sized":
        return []
    b = re.sub(rf"^(?:{IDENT}::)+", "", b)
    m = re.match(rf"({IDENT})(.*)$", b, re.S)
    if not m:
        raise ParseError(f"cannot parse bound {bound!r} on {subject!r}")
    name, rest = m.group(1), m.group(2)
    arg = rest[1:-1] if rest.startswith("<") and rest.endswith(">") else None
    if name == "Handler" and arg:
        return [f"Handler({subject},{arg})"]
    if name == "StreamHandler" and arg:
        return [f"StreamHandler({subject},{arg})"]
    if name == "Message":
        if rest == "":
            return []
        if arg == "Response=()":
            return [f"RespUnit({subject})"]
        if arg and re.fullmatch(rf"Response={IDENT}", arg):      # `Message<Response = R>`, R a free parameter
            return []
        raise ParseError(f"unknown Message bound {bound!r}")
    simple = {"RestartableActor": "Restartable", "Default": "HasDefault", "Service": "IsService", "Clone": "Clone"}
    if name in simple and rest == "":
        return [f"{simple[name]}({subject})"]
    if name == "Into" and arg:
        m2 = re.fullmatch(rf"Sender<(.+)>", arg)
        if not m2:
            raise ParseError(f"unknown conversion bound {bound!r}")
        return [f"IntoSender({m2.group(1)})"]
    if name in IGNORABLE:
        return []
    raise ParseError(f"unknown bound {bound!r} on {subject!r}: extend sigs.py (atom or IGNORABLE)")


def canon(atom, fname):
    atom = re.sub(rf"\b{IDENT}::Item\b", "Item", atom)
    atom = re.sub(r"\bSelf\b", "A", atom)
    if fname.endswith("broker.rs"):
        atom = re.sub(r"\bT\b", "M", atom)
    return atom


def cfg_true(expr):
    e = expr.strip()
    m = re.fullmatch(r'feature\s*=\s*"([^"]*)"', e)
    if m:
        return m.group(1) in DEFAULT_FEATURES
    if e in ("test", "hannibal_verif"):
        return False
    m = re.fullmatch(r"(not|any|all)\s*\((.*)\)", e, re.S)
    if m:
        vals = [cfg_true(x) for x in split_top(m.group(2), ",") if x]
        return {"not": lambda: not vals[0], "any": lambda: any(vals), "all": lambda: all(vals)}[m.group(1)]()
    raise ParseError(f"unknown cfg predicate {expr!r}")


# ------------------------------------------------------------------ the parser proper
class FileParser:
    def __init__(self, fname, raw, sink):
        self.fname, self.raw, self.t, self.sink = fname, raw, clean(raw), sink

    def line(self, i):
        return self.raw.count("\n", 0, i) + 1

    def err(self, i, msg):
        raise ParseError(f"{self.fname}:{self.line(i)}: {msg}: {self.t[i:i + 60].splitlines()[0] if i < len(self.t) else 'EOF'!r}")

    def ws(self, i, hi):
        while i < hi and self.t[i].isspace():
            i += 1
        return i

    def close(self, i):
        """index just after the bracket matching t[i] (one of ([{ )"""
        stack, j = [], i
        while j < len(self.t):
            c = self.t[j]
            if c in OPEN:
                stack.append(CLOSE[OPEN.index(c)])
            elif c in CLOSE:
                if not stack or stack.pop() != c:
                    self.err(j, "mismatched bracket")
                if not stack:
                    return j + 1
            j += 1
        self.err(i, "unclosed bracket")

    def header_end(self, i, hi, stops):
        """first char in `stops` at depth 0 of () [] <> starting from i"""
        depth = 0
        while i < hi:
            c = self.t[i]
            if self.t.startswith("->", i) or self.t.startswith("=>", i):
                i += 2
                continue
            if depth == 0 and c in stops:
                return i
            if c in "([<":
                depth += 1
            elif c in ")]>":
                depth -= 1
            i += 1
        self.err(hi - 1, f"no {stops!r} found for item header")

    def attrs(self, i, hi):
        """-> (next offset, [cfg expressions], is_test)"""
        cfgs = []
        while True:
            i = self.ws(i, hi)
            if i < hi and self.t[i] == "#":
                j = i + 1
                if self.t[j] == "!":
                    j += 1
                if self.t[j] != "[":
                    self.err(i, "malformed attribute")
                end = self.close(j)
                body = self.raw[j + 1:end - 1].strip()
                m = re.fullmatch(r"cfg\s*\((.*)\)", body, re.S)
                if m:
                    cfgs.append(m.group(1))
                i = end
            else:
                return i, cfgs

    def vis(self, i, hi):
        m = re.compile(r"pub(\s*\([^)]*\))?(?!\w)").match(self.t, i)
        if not m:
            return i, "private"
        return self.ws(m.end(), hi), ("pub" if not m.group(1) else "restricted")

    def word(self, i):
        m = re.compile(IDENT).match(self.t, i)
        return m.group(0) if m else None

    def skip_semicolon_item(self, i, hi):
        depth = 0
        while i < hi:
            c = self.t[i]
            if c in OPEN:
                i = self.close(i)
                continue
            if c == ";":
                return i + 1
            i += 1
        self.err(hi - 1, "missing ';'")

    def split_header(self, h):
        """'<G> rest where W' pieces of a header string -> (generics, rest, where)"""
        h = h.strip()
        gen = ""
        if h.startswith("<"):
            depth = 0
            for k, c in enumerate(h):
                if h.startswith("->", k - 1) and c == ">":
                    continue
                depth += c == "<"
                depth -= c == ">"
                if depth == 0:
                    gen, h = h[1:k], h[k + 1:]
                    break
            else:
                raise ParseError(f"unbalanced generics in {h!r}")
        w = find_word_top(h, "where")
        where = ""
        if w >= 0:
            h, where = h[:w], h[w + 5:]
        return gen, h.strip(), where.strip()

    # ---- module level
    def module(self, lo, hi, public_ctx=True):
        i = lo
        while True:
            i, cfgs = self.attrs(i, hi)
            if i >= hi:
                return
            start = i
            i, vis = self.vis(i, hi)
            kw = self.word(i)
            if kw is None:
                self.err(i, "unexpected token at item position")
            live = all(cfg_true(c) for c in cfgs)
            after = self.ws(i + len(kw), hi)
            if self.t[after] == "!" or (self.t.startswith("::", after) and re.compile(rf"(::{IDENT})+\s*!").match(self.t, after)):
                j = self.t.index("!", after) + 1
                j = self.ws(j, hi)
                name = self.word(j) if kw == "macro_rules" else None
                if name:
                    j = self.ws(j + len(name), hi)
                if self.t[j] not in OPEN:
                    self.err(j, "macro without delimiter")
                end = self.close(j)
                self.sink["skipped"]["macros"].append(f"{self.fname}:{self.line(start)} {self.raw[start:j].strip()}")
                i = self.ws(end, hi)
                i = i + 1 if i < hi and self.t[i] == ";" else end
                continue
            if kw in ("use", "type", "static") or (kw == "const" and self.word(after) not in ("fn", "async", "unsafe")):
                i = self.skip_semicolon_item(i, hi)
            elif kw == "extern" and self.word(after) == "crate":
                i = self.skip_semicolon_item(i, hi)
            elif kw == "mod":
                name = self.word(after)
                j = self.ws(after + len(name), hi)
                if self.t[j] == ";":
                    i = j + 1
                elif self.t[j] == "{":
                    end = self.close(j)
                    if live:
                        self.module(j + 1, end - 1, public_ctx)
                    else:
                        self.sink["skipped"]["cfg_false"].append(f"{self.fname}:{self.line(start)} mod {name}")
                    i = end
                else:
                    self.err(j, "malformed mod")
            elif kw in ("struct", "enum", "union"):
                i = self.struct(start, after, hi, kw, live)
            elif kw == "trait":
                i = self.trait(start, after, hi, vis, live)
            elif kw == "impl":
                i = self.impl(start, after, hi, live)
            elif kw in ("fn", "async", "const", "unsafe"):
                i = self.function(start, i, hi, dict(kind="free", vis=vis, live=live, preds=[], params=[],
                                                     self_ty="", msg_params=[], actor_params=[]))
            else:
                self.err(i, "unknown item")

    def struct(self, start, i, hi, kw, live):
        name = self.word(i)
        j = self.header_end(i + len(name), hi, "{(;")
        gen, rest, where = self.split_header(self.t[i + len(name):j])
        if rest:
            self.err(i, "unexpected text in struct header")
        _, preds = parse_generics(gen)
        preds += parse_where(where)
        if self.t[j] == "(":
            j = self.close(j)
            k = self.header_end(j, hi, ";")
            preds += parse_where(self.split_header(self.t[j:k])[2])
            end = k + 1
        elif self.t[j] == "{":
            end = self.close(j)
        else:
            end = j + 1
        if live and kw == "struct":
            atoms = sorted({canon(a, self.fname) for s, b in preds for a in atoms_of(s, b)})
            self.sink["structs"].append(dict(name=name, file=self.fname, line=self.line(start), bounds=atoms))
        return end

    def trait(self, start, i, hi, vis, live):
        name = self.word(i)
        j = self.header_end(i + len(name), hi, "{")
        head = self.t[i + len(name):j]
        gen, rest, where = self.split_header(head)
        params, preds = parse_generics(gen)
        if rest:
            if not rest.startswith(":"):
                self.err(i, "unexpected text in trait header")
            preds += [("Self", b) for b in split_top(rest[1:], "+") if b]
        preds += parse_where(where)
        end = self.close(j)
        self.sink["traits"][name] = vis
        if live:
            self.assoc(j + 1, end - 1, dict(kind="trait", name=name, vis=vis, preds=preds, params=params,
                                            self_ty="Self", msg_params=[], actor_params=["Self"], live=True))
        else:
            self.sink["skipped"]["cfg_false"].append(f"{self.fname}:{self.line(start)} trait {name}")
        return end

    def impl(self, start, i, hi, live):
        j = self.header_end(i, hi, "{")
        gen, rest, where = self.split_header(self.t[i:j])
        params, preds = parse_generics(gen)
        preds += parse_where(where)
        f = find_word_top(rest, "for")
        trait_ref, self_ty = (rest[:f].strip(), rest[f + 3:].strip()) if f >= 0 else (None, rest)
        if self_ty.startswith("<") or "for<" in squeeze(rest):
            self.err(i, "unsupported impl header")
        end = self.close(j)
        if not live:
            self.sink["skipped"]["cfg_false"].append(f"{self.fname}:{self.line(start)} impl {squeeze(rest)}")
            return end
        msg_params = [p for p in params if any(s == p and re.match(r"(\w+::)*Message\b", squeeze(b)) for s, b in preds)
                      and re.search(rf"\b{p}\b", self_ty)]
        actor_params = [p for p in params if p not in msg_params and re.search(rf"\b{p}\b", self_ty)]
        self.assoc(j + 1, end - 1, dict(kind="impl", trait=trait_ref, self_ty=self_ty, preds=preds, params=params,
                                        msg_params=msg_params, actor_params=actor_params, live=True,
                                        header=squeeze(self.t[start:j])))
        return end

    def assoc(self, lo, hi, ctx):
        i = lo
        while True:
            i, cfgs = self.attrs(i, hi)
            if i >= hi:
                return
            start = i
            i, vis = self.vis(i, hi)
            kw = self.word(i)
            after = self.ws(i + len(kw or ""), hi)
            if kw == "type" or (kw == "const" and self.word(after) not in ("fn", "async", "unsafe")):
                i = self.skip_semicolon_item(i, hi)
            elif kw in ("fn", "async", "const", "unsafe"):
                c = dict(ctx)
                c["vis"] = ctx["vis"] if ctx["kind"] == "trait" else vis      # trait methods inherit the trait's visibility
                c["live"] = all(cfg_true(x) for x in cfgs)
                i = self.function(start, i, hi, c)
            else:
                self.err(i, "unknown associated item")

    def function(self, start, i, hi, ctx):
        while self.word(i) in ("async", "const", "unsafe"):
            i = self.ws(i + len(self.word(i)), hi)
        if self.word(i) != "fn":
            self.err(i, "expected fn")
        fn_at = i
        i = self.ws(i + 2, hi)
        name = self.word(i)
        i = self.ws(i + len(name), hi)
        gen = ""
        if self.t[i] == "<":
            k = self.header_end(i, hi, "(")
            gen = self.t[i:k].strip()
            if not gen.endswith(">"):
                self.err(i, "malformed fn generics")
            gen, i = gen[1:-1], k
        if self.t[i] != "(":
            self.err(i, "expected parameter list")
        pend = self.close(i)
        params_src = self.t[i + 1:pend - 1]
        k = self.header_end(pend, hi, "{;")
        tail = self.t[pend:k].strip()
        w = find_word_top(tail, "where")
        ret, where = (tail[:w], tail[w + 5:]) if w >= 0 else (tail, "")
        ret = ret.strip()
        if ret and not ret.startswith("->"):
            self.err(pend, "unexpected text after parameter list")
        ret = ret[2:].strip()
        end = self.close(k) if self.t[k] == "{" else k + 1

        fparams, preds = parse_generics(gen)
        preds = list(ctx["preds"]) + preds + parse_where(where)
        ptypes = []
        for p in split_top(params_src, ","):
            if not p or re.fullmatch(r"(&\s*('\w+\s+)?)?(mut\s+)?self", p):
                continue
            parts = split_top_colon(p)
            if parts is None:
                self.err(fn_at, f"cannot parse parameter {p!r}")
            pat, ty = parts
            if pat.replace("mut ", "").strip() == "self":
                continue
            ptypes.append(ty)
            if ty.startswith("impl "):
                preds += [("<arg>", b) for b in split_top(ty[5:], "+") if b]
        if not ctx["live"]:
            self.sink["skipped"]["cfg_false"].append(f"{self.fname}:{self.line(start)} fn {name}")
            return end
        entry = self.entry_name(ctx, name)
        public = self.is_public(ctx)
        if entry is None or not public:
            if ctx["kind"] == "impl" and ctx.get("trait") and public:
                self.sink["omitted"].add(ctx["header"])
            # parsed completely (so malformed text still raises) but not part of the public table
            for s, b in preds:
                atoms_of(s, b)
            return end
        atoms = {a for s, b in preds for a in atoms_of(s, b)}
        st = squeeze(ctx["self_ty"])
        m = re.fullmatch(r"ActorBuilderWithChannel<(.*)>", st)
        if m:
            strategy = split_top(m.group(1), ",")[2]
            if strategy not in ctx["params"]:
                atoms.add(f"StrategyIs({strategy})")
        sig_types = " ".join(ptypes + [ret])
        if not fparams:
            if any(re.search(rf"\b{p}\b", sig_types) for p in ctx["msg_params"]):
                atoms.add("SameMsg")
            if any(re.search(rf"\b(Addr|WeakAddr|OwningAddr)\s*<\s*{p}\s*>", ret) for p in ctx["actor_params"]) \
                    and re.match(r"(Addr|WeakAddr|OwningAddr)<", st):
                atoms.add("SameActor")
        atoms = sorted({canon(a, self.fname) for a in atoms})
        if entry in self.sink["names"]:
            self.err(fn_at, f"duplicate entry {entry} (also at {self.sink['names'][entry]})")
        self.sink["names"][entry] = f"{self.fname}:{self.line(fn_at)}"
        self.sink["entries"].append(dict(entry=entry, file=self.fname, line=self.line(fn_at), bounds=atoms))
        return end

    def is_public(self, ctx):
        if ctx["kind"] == "trait":
            return ctx["vis"] == "pub"
        if ctx["kind"] == "impl" and ctx.get("trait"):
            tname = re.sub(rf"^(?:{IDENT}::)+", "", squeeze(ctx["trait"])).split("<")[0]
            return self.sink["traits"].get(tname, "pub") == "pub"
        return ctx["vis"] == "pub"

    def entry_name(self, ctx, fn):
        if ctx["kind"] == "free":
            return fn
        if ctx["kind"] == "trait":
            return f"{ctx['name']}::{fn}"
        st = squeeze(ctx["self_ty"])
        m = re.fullmatch(rf"(&?)({IDENT})(?:<(.*)>)?", st)
        if not m:
            raise ParseError(f"{self.fname}: cannot parse self type {ctx['self_ty']!r}")
        base, args = m.group(2), split_top(m.group(3) or "", ",")
        shown = base
        if base != "ActorBuilderWithChannel":
            inner = [re.match(IDENT, a).group(0) for a in args if a and a not in ctx["params"] and not a.startswith("'")]
            if inner:
                shown = f"{base}<{','.join(inner)}>"
        if not ctx.get("trait"):
            return f"{shown}::{fn}"
        tr = squeeze(ctx["trait"])
        tname = re.sub(rf"^(?:{IDENT}::)+", "", tr).split("<")[0]
        if tname not in EMIT_TRAIT_IMPLS:
            return None
        if tname == "From":
            src = re.fullmatch(r"From<(&?)(\w+)(<.*>)?>", tr)
            if not src:
                raise ParseError(f"{self.fname}: cannot parse {tr!r}")
            return f"{shown}::from({src.group(1)}{src.group(2)})"
        return f"<{shown} as {tname}>::{fn}"


# ------------------------------------------------------------------ driver
def build(repo):
    sink = dict(entries=[], structs=[], traits={}, names={}, omitted=set(),
                skipped=dict(macros=[], cfg_false=[]))
    files = []
    for pat in FILES:
        got = sorted(glob.glob(os.path.join(repo, pat)))
        if not got:
            raise ParseError(f"no file matches {pat} under {repo}")
        files += got
    parsers = [FileParser(os.path.relpath(f, repo), open(f).read(), sink) for f in files]
    for p in parsers:           # pass 1: trait visibilities (needed to decide whether a trait impl is public API)
        for m in re.finditer(rf"^[ \t]*(pub(?:\s*\([^)]*\))?\s+)?trait\s+({IDENT})", p.t, re.M):
            v = m.group(1)
            sink["traits"][m.group(2)] = "private" if not v else ("pub" if "(" not in v else "restricted")
    for p in parsers:
        p.module(0, len(p.t))
    entries = sink["entries"]
    by = {e["entry"]: set(e["bounds"]) for e in entries}
    obs = []
    restarts = [n for n in by if n.endswith("::restart")]
    streams = [n for n, b in by.items() if any(a.startswith("StreamHandler(") for a in b)]
    if restarts and all(by[n] == {"Restartable(A)"} for n in restarts):
        obs.append("restart is gated on the actor TYPE only (" + ", ".join(sorted(restarts)) + " demand just Restartable(A)); "
                   "Addr<A>/Context<A> carry no restart-strategy parameter, so the builder's NonRestartable choice is "
                   "invisible to them")
    if streams:
        obs.append("stream attachment (" + ", ".join(sorted(streams)) + ") demands StreamHandler(A,Item)"
                   " [+ StrategyIs(NonRestartable) on the builder] but nothing excludes Restartable(A): an actor type may "
                   "implement both RestartableActor and StreamHandler, then restart() type-checks on a stream actor")
    return dict(repo=repo, files=[p.fname for p in parsers], entries=entries, structs=sink["structs"],
                observations=obs, omitted_trait_impls=sorted(sink["omitted"]), skipped=sink["skipped"])


def self_test(repo, catalogue):
    table = build(repo)
    by = {e["entry"]: set(e["bounds"]) for e in table["entries"]}
    fails, checks = [], 0
    for item in json.load(open(catalogue)):
        if "sig" not in item:
            continue
        checks += 1
        missing = [s for s in item["sig"] if s not in by]
        if missing:
            fails.append(f"{item['name']}: no table entry for {missing}")
            continue
        union = set().union(*(by[s] for s in item["sig"]))
        if item["atom"] not in union:
            fails.append(f"{item['name']}: rule {item['rule']} needs {item['atom']} at {item['sig']}, table has {sorted(union)}")
        if item["sig"][0] != item["entry"] and item["entry"] not in by:
            fails.append(f"{item['name']}: entry {item['entry']} not in table")
    # the parser must refuse what it does not understand, and get a known shape right
    def parse_snippet(src):
        sink = dict(entries=[], structs=[], traits={}, names={}, omitted=set(), skipped=dict(macros=[], cfg_false=[]))
        FileParser("snippet.rs", src, sink).module(0, len(src))
        return {e["entry"]: e["bounds"] for e in sink["entries"]}
    good = parse_snippet('impl<M: Message<Response = ()>> H<M> { /* } */ pub fn go<A>(&self, m: M, s: "}{") where A: Handler<M> + Send {} }')
    if good != {"H::go": ["Handler(A,M)", "RespUnit(M)"]}:
        fails.append(f"snippet: got {good}")
    for bad in ["impl<A: Frobnicate> X<A> { pub fn f(&self) {} }",
                "impl<A> X<A> { pub fn f(&self) where A: Handler<M> { }",
                "impl<A> X<A> { pub gen f(&self) {} }",
                "impl<const N: usize> X<N> { pub fn f(&self) {} }",
                "#[cfg(target_os = \"linux\")] impl<A> X<A> { pub fn f(&self) {} }",
                "pub frob X;"]:
        checks += 1
        try:
            parse_snippet(bad)
            fails.append(f"snippet accepted although unparseable: {bad!r}")
        except ParseError:
            pass
    for f in fails:
        print("FAIL " + f)
    print(f"self-test: {len(table['entries'])} entries, {checks} checks, {len(fails)} failures")
    return 1 if fails else 0


def main(argv):
    args = [a for a in argv if not a.startswith("--")]
    repo = args[0] if args else "/repo"
    try:
        if "--self-test" in argv:
            cat = os.path.join(os.path.dirname(os.path.abspath(__file__)), "..", "typing", "catalogue.json")
            return self_test(repo, args[1] if len(args) > 1 else cat)
        table = build(repo)
    except ParseError as e:
        print(f"sigs.py: PARSE ERROR: {e}", file=sys.stderr)
        return 2
    if "--table" in argv:
        for e in table["entries"]:
            print(f"{e['entry']:55} {e['file']}:{e['line']:<4} {' '.join(e['bounds'])}")
    else:
        json.dump(table, sys.stdout, indent=1)
        print()
    return 0


if __name__ == "__main__":
    sys.exit(main(sys.argv[1:]))
