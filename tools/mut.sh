#!/bin/bash
# usage: mut.sh <patch> <seed> <n> family...   apply patch to /repo, run families through harness+runner, revert
set -u
patch=$1; seed=$2; n=$3; shift 3
git -C /repo apply "$patch" || exit 2
(cd /verif/harness && RUSTFLAGS="--cfg hannibal_verif" cargo build --offline --target-dir /verif/target 2>&1 | grep -E "^error" -A 12 | head -30)
mkdir -p /verif/work/mut
for f in "$@"; do
  timeout 600 /verif/target/debug/hvharness gen $f $seed 0 $n /verif/work/mut/$f 2>/dev/null
  echo "== $f"; /verif/runner/runner /verif/work/mut/$f.traces ${MONS:-} | awk '{print $2,$3,$5}' | sort | uniq -c | sort -rn | head -6
done
git -C /repo checkout -- .
(cd /verif/harness && RUSTFLAGS="--cfg hannibal_verif" cargo build --offline --target-dir /verif/target 2>&1 | grep -E "^error" -A 12 | head -30)
