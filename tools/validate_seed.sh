#!/bin/bash
# usage: validate_seed.sh <ID> <name>   confirm a sub-agent's seeded change in its worktree, then keep it under /verif/seeded/<name>
id=$1; name=$2; wt=/tmp/wt-$id; out=/tmp/seed-out/$id
cd $wt || exit 2
log=/tmp/seed-out/$id.validate.log; : > $log
git diff -- src > /tmp/seed-out/$id.actual.diff
if ! diff -q /tmp/seed-out/$id.actual.diff $out/patch.diff >/dev/null; then echo "NOTE: patch.diff differs from worktree diff; using worktree diff" >> $log; cp /tmp/seed-out/$id.actual.diff $out/patch.diff; fi
[ -f tests/seed_demo.rs ] || cp $out/seed_demo.rs tests/seed_demo.rs
cargo nextest run --workspace --no-fail-fast --offline --test-threads 8 > /tmp/seed-out/$id.with.log 2>&1
fails_with=$(grep -E "^\s+FAIL " /tmp/seed-out/$id.with.log | sed -E 's/.*\] +//' | sort -u)
echo "with change, failing: $fails_with" >> $log
base_broken=$(echo "$fails_with" | grep -v "seed_demo" | grep -v "invalid_builder_configurations" | grep -c . )
demo_fails=$(echo "$fails_with" | grep -c "seed_demo")
passed=$(grep -E "Summary" /tmp/seed-out/$id.with.log)
echo "summary with: $passed" >> $log
git apply -R $out/patch.diff || { echo 'cannot reverse patch' >> $log; }
cargo nextest run --offline --test seed_demo > /tmp/seed-out/$id.without.log 2>&1
fails_without=$(grep -E "^\s+FAIL " /tmp/seed-out/$id.without.log | wc -l)
echo "summary without: $(grep -E Summary /tmp/seed-out/$id.without.log)" >> $log
git apply $out/patch.diff
if [ "$base_broken" = "0" ] && [ "$demo_fails" -ge 1 ] && [ "$fails_without" = "0" ]; then
  mkdir -p /verif/seeded/$name
  cp $out/patch.diff /verif/seeded/$name/patch.diff
  cp tests/seed_demo.rs /verif/seeded/$name/seed_demo.rs
  python3 - "$id" "$name" "$out" <<'PY'
import json,sys
id,name,out=sys.argv[1:4]
try: meta=json.load(open(f"{out}/meta.json"))
except Exception: meta={"property":id}
meta["confirmed"]={"by":"tools/validate_seed.sh in the sub-agent's scratch worktree","suite_with_change":open(f"/tmp/seed-out/{id}.validate.log").read(),"what_ran":["cargo nextest run --workspace --no-fail-fast --offline (with the change: only the demo and the baseline's always-failing trybuild test fail)","git stash -- src; cargo nextest run --test seed_demo (passes); git stash pop"]}
json.dump(meta,open(f"/verif/seeded/{name}/meta.json","w"),indent=1)
PY
  echo "CONFIRMED $id -> /verif/seeded/$name" >> $log
else
  echo "REJECTED $id base_broken=$base_broken demo_fails=$demo_fails fails_without=$fails_without" >> $log
fi
cat $log
