#!/bin/bash
# runs every seeded change against the quick check of its property (and neighbours); results in notes/seed-matrix.txt
cd /verif
out=notes/seed-matrix.txt; : > $out
run() { tools/seedrun.sh "$@" 2>&1 | grep -E "exit=" >> $out; }
run C01-batch-swap-remove C01
run C02-notify-on-timeout-failure C02 C06
run C03-orphaned-restart C03 C07
run C04-stop-drains-queue C04 C05
run C05-register-evicts-on-error C05 C08
run C06-timers-leak-on-abnormal-exit C06 C10
run C07-abort-on-nonrestartable C07
run C08-register-check-not-atomic C08
run C09-fanout-skips-after-prune C09
run C10-timer-handle-displaced C10
run C11-stale-watchdog C11
run C12-bound0-as-1 C12
run C13-stream-drain-starves-mailbox C13
run C14-stopped-only-on-notify C14
run C15-caller-holds-forcing-only C15 C05
run C16-broadcast-skips-after-prune C16
run C17-failed-restart-becomes-graceful C17 C07
run C18-from-agent C18
run C19-from-agent C19
run revert-F1 C08
run revert-F2 C14 C06
run revert-F3 C15
run revert-F4 C07 C10
run revert-F5 C18
echo DONE >> $out
