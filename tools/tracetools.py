"""Reading harness traces; human-readable event names; input-distribution statistics."""
TAGS = {1: "Spawn", 2: "Handle", 3: "Drop", 4: "Upg", 5: "Op", 6: "Ret", 7: "Deq", 8: "HBegin", 9: "HEnd", 10: "Push",
        11: "Sleep", 12: "CbBegin", 13: "CbEnd", 14: "TaskEnd", 15: "Clock", 16: "Quiesce", 17: "Budget", 18: "TimerEnd",
        19: "ClientEnd", 20: "Foreign", 21: "Ctx", 22: "TimerReg", 23: "Tick", 24: "Exec", 25: "Yield", 26: "StreamEnd",
        27: "ItemBegin", 28: "ItemEnd", 29: "JoinNew", 30: "JoinDrop", 31: "ChildAdd", 32: "Bcast", 33: "Reg",
        34: "Subscribe", 35: "Deliver", 36: "PubCopy", 37: "Release", 38: "Query", 39: "Crash", 40: "StreamClose",
        41: "BcastBegin", 42: "TimerSleep", 43: "Probe", 44: "Broker", 45: "TopicOp", 46: "TopicRet", 47: "BcastEnd", 48: "Identity", 49: "Abandon"}
HK = ["Addr", "Owning", "Sender", "Caller", "WAddr", "WSender", "WCaller"]
OPK = ["send", "call", "ping", "stop", "restart", "halt", "await", "await_ref", "join", "consume", "force", "publish", "unsubscribe"]
RK = ["Ok", "OkV", "Err", "None", "SomeV", "Bool", "Skip", "OptBool", "Inst"]
ERR = ["Send", "Canceled", "AlreadyStopped", "NotFound", "StillRunning", "Timeout"]
PK = ["task", "stop", "restart", "none"]
CB = ["started", "stopped", "finished"]
HST = ["completed", "abandoned", "panicked", "cancelled"]
END = ["returned", "panicked", "cancelled"]
TK = ["interval", "interval_with", "delayed_send", "delayed_exec"]
REGK = ["from_registry", "setup", "register", "replace", "unregister", "try_from_registry", "already_running"]


def g(l, i):
    return l[i] if 0 <= i < len(l) else "?"


def pretty(e):
    t = e[0]
    n = TAGS.get(t, f"?{t}")
    a = e[1:]
    try:
        if t == 1:
            return f"Spawn a{a[0]} bound={'unbounded' if a[1] == 0 else a[1] - 1} timeout={'none' if a[2] == 0 else a[2] - 1} fail_on_timeout={a[3]} strategy={['RestartOnly', 'RecreateFromDefault', 'NonRestartable'][a[4]]} stream={a[5]} entry={a[6]} ty={a[7]}"
        if t == 2:
            return f"Handle h{a[0]} -> a{a[1]} {g(HK, a[2])}"
        if t == 5:
            return f"Op o{a[0]} client{a[1]} h{a[2]} {g(OPK, a[3])}" + (f" {a[4:]}" if len(a) > 4 else "")
        if t == 6:
            r = g(RK, a[1])
            if a[1] == 2:
                r += " " + g(ERR, a[2])
            elif a[1] in (1, 4):
                r += " " + str(a[3:])
            elif len(a) > 2:
                r += " " + str(a[2:])
            return f"Ret o{a[0]} {r}"
        if t == 36:
            return f"PubCopy topic{a[0]} clone o{a[1]} value {a[2]} of publication o{a[3]}" + (f" by broker a{a[4]} through h{a[5]}" if len(a) > 5 else "")
        if t == 44:
            return f"Broker a{a[0]} {g(['fan-out begins', 'holds', 'target', 'fan-out ends', 'subscribe', 'unsubscribe'], a[1])}" + (f" a{a[2]}" if a[1] in (1, 2, 4, 5) else "") + (f" h{a[3]}" if a[1] in (1, 2) else "")
        if t == 45:
            return f"TopicOp o{a[0]} client{a[1]} {g(['publish', 'subscribe', 'unsubscribe'], a[2])} topic{a[3]} " + (f"value {a[4]}" if a[2] == 0 else f"a{a[4]}")
        if t == 46:
            return f"TopicRet o{a[0]} {'Ok' if a[1] else 'Err'}"
        if t == 7:
            return f"Deq a{a[0]} {g(PK, a[1])}"
        if t == 8:
            return f"HBegin a{a[0]} o{a[1]}"
        if t == 9:
            return f"HEnd a{a[0]} o{a[1]} {g(HST, a[2])}"
        if t == 12:
            return f"CbBegin a{a[0]} {g(CB, a[1])}"
        if t == 13:
            return f"CbEnd a{a[0]} {g(CB, a[1])} {['ok', 'fail', 'panicked', 'cancelled'][a[2]]}"
        if t == 14:
            return f"TaskEnd a{a[0]} {g(END, a[1])}"
        if t == 18:
            return f"TimerEnd a{a[0]} timer{a[1]} {g(END, a[2])}"
        if t == 21:
            return f"Ctx a{a[0]} {'restart' if a[1] else 'stop'} ok={a[2]} o{a[3]}"
        if t == 22:
            return f"TimerReg a{a[0]} timer{a[1]} {g(TK, a[2])} every {a[3]}"
        if t == 33:
            return f"Reg o{a[0]} client{a[1]} {g(REGK, a[2])} ty{a[3]} h{a[4]}"
    except Exception:
        pass
    return n + " " + " ".join(str(x) for x in a)


WHY = {}


def why(code):
    return WHY.get(code, "see the check numbered %d in coq/theories/Model/Sys.v" % code)


def load_traces(path):
    out, cur, idx = {}, None, None
    with open(path) as f:
        for l in f:
            l = l.strip()
            if l.startswith("C "):
                idx = int(l[2:])
                cur = []
            elif l == "E":
                if idx is not None:
                    out[idx] = cur
                idx = None
            elif l and cur is not None:
                cur.append([int(x) for x in l.split()])
    return out


def stats(tr):
    st = {}

    def inc(k):
        st[k] = st.get(k, 0) + 1
    for e in tr:
        t = e[0]
        if t == 5:
            inc("op_" + g(OPK, e[4]))
        elif t == 1:
            inc("actors")
            inc("mailbox_unbounded" if e[2] == 0 else "mailbox_bounded")
            if e[3]:
                inc("with_timeout")
            if e[6]:
                inc("stream_attached")
        elif t == 6:
            inc("ret_" + g(RK, e[2]) + ("_" + g(ERR, e[3]) if e[2] == 2 else ""))
        elif t == 14:
            inc("task_end_" + g(END, e[2]))
        elif t == 22:
            inc("timer_" + g(TK, e[3]))
        elif t == 23:
            inc("ticks")
        elif t == 39:
            inc("crashes")
        elif t == 9 and e[3] != 0:
            inc("handler_" + g(HST, e[3]))
        elif t == 16:
            inc("cases_quiesced")
        elif t == 17:
            inc("cases_budget")
        elif t == 33:
            inc("reg_" + g(REGK, e[3]))
    st["events"] = len(tr)
    return st
