#!/bin/bash
# runs every seeded change (rounds 1 and 2) against the quick checks of the properties it touches; results in notes/seed-matrix-final.txt
cd /verif
out=notes/seed-matrix-final.txt; : > $out
run() { tools/seedrun.sh "$@" 2>&1 | grep -E "exit=|^C[0-9]+:" | cut -c1-330 >> $out; }
run C01-batch-swap-remove C01
run C01-forced-overflow-lane C01 C12
run C02-notify-on-timeout-failure C02 C06
run C02-join-lock-held-across-await C02 C17
run C03-orphaned-restart C03 C07
run C03-stopped-on-nonrestartable-restart C03 C07
run C04-stop-drains-queue C04 C05
run C04-ctx-stop-skips-queue C04 C01
run C05-register-evicts-on-error C05 C08
run C05-interval-holds-sender C05 C10
run C06-timers-leak-on-abnormal-exit C06 C10
run C06-notify-before-last-callback C06 C04
run C07-abort-on-nonrestartable C07
run C07-restart-failure-swallowed-by-timeout-path C07 C03
run C08-register-check-not-atomic C08
run C08-dead-entry-not-replaced C08
run C09-fanout-skips-after-prune C09
run C09-publish-try-registry C09
run C10-timer-handle-displaced C10
run C10-interval-with-holds-sender C10 C05
run C11-stale-watchdog C11
run C11-fail-flag-order-dependent C11
run C12-bound0-as-1 C12
run C12-shared-sender-fast-path C12 C01
run C13-stream-drain-starves-mailbox C13
run C13-peek-drops-mailbox-message C13
run C14-stopped-only-on-notify C14
run C14-weakaddr-stopped-by-upgrade C14
run C15-caller-holds-forcing-only C15 C05
run C15-bounded-caller-drops-forcing-keepalive C15 C05
run C16-broadcast-skips-after-prune C16
run C16-restart-clears-children C16
run C17-failed-restart-becomes-graceful C17 C07
run C17-shared-join-slot-loses-waker C17 C02
run C18-from-agent C18
run C18-smol-join-takes-receiver-at-creation C18
run C19-from-agent C19
run C19-with-stream-on-restartable-builder C19
run revert-F1 C08
run revert-F2 C14 C06
run revert-F3 C15
run revert-F4 C07 C10
run revert-F5 C18
run revert-F5b C18
echo DONE >> $out
