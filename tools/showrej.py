#!/usr/bin/env python3
"""authoring aid: print the trace of the first case the model rejects in <prefix>.traces"""
import subprocess,sys
sys.path.insert(0,'/verif/tools'); import tracetools
pre=sys.argv[1]; want=int(sys.argv[2]) if len(sys.argv)>2 else None
out=subprocess.run(['/verif/runner/runner',pre+'.traces']+sys.argv[3:],capture_output=True,text=True).stdout
tr=tracetools.load_traces(pre+'.traces')
for l in out.splitlines():
    p=l.split()
    if p[1]=='MODEL' and p[2]=='rej' and (want is None or int(p[4])==want):
        idx=int(p[0]); pos=int(p[3]); print('case',idx,'reason',p[4])
        for k,e in enumerate(tr[idx][:pos+3]): print('>>' if k==pos else '  ',k,tracetools.pretty(e))
        import json
        for line in open(pre+'.cases'):
            i,c=json.loads(line)
            if i==idx: print(json.dumps(c)[:3000])
        break
