
val negb : bool -> bool

type nat =
| O
| S of nat

val fst : ('a1 * 'a2) -> 'a1

val snd : ('a1 * 'a2) -> 'a2

val length : 'a1 list -> nat

val app : 'a1 list -> 'a1 list -> 'a1 list

val pred : nat -> nat

val add : nat -> nat -> nat

val mul : nat -> nat -> nat

val sub : nat -> nat -> nat

val eqb : bool -> bool -> bool

module Nat :
 sig
  val eqb : nat -> nat -> bool

  val leb : nat -> nat -> bool

  val ltb : nat -> nat -> bool

  val eq_dec : nat -> nat -> bool
 end

val tl : 'a1 list -> 'a1 list

val nth_error : 'a1 list -> nat -> 'a1 option

val list_eq_dec : ('a1 -> 'a1 -> bool) -> 'a1 list -> 'a1 list -> bool

val map : ('a1 -> 'a2) -> 'a1 list -> 'a2 list

val fold_left : ('a1 -> 'a2 -> 'a1) -> 'a2 list -> 'a1 -> 'a1

val existsb : ('a1 -> bool) -> 'a1 list -> bool

val forallb : ('a1 -> bool) -> 'a1 list -> bool

val filter : ('a1 -> bool) -> 'a1 list -> 'a1 list

type 'a map0 = nat -> 'a option

val empty : 'a1 map0

val upd : 'a1 map0 -> nat -> 'a1 -> 'a1 map0

type 'a res =
| Acc of 'a
| Rej of nat

val bind : 'a1 res -> ('a1 -> 'a2 res) -> 'a2 res

val guard : bool -> nat -> unit res

val memb : nat -> nat list -> bool

val remove1 : nat -> nat list -> nat list

val list_eqb : nat list -> nat list -> bool

val opt_eqb : nat option -> nat option -> bool

type aid = nat

type hid = nat

type oid = nat

type jid = nat

type hkind =
| KAddr
| KOwning
| KSender
| KCaller
| KWAddr
| KWSender
| KWCaller

type strategy =
| RestartOnly
| RecreateFromDefault
| NonRestartable

type err =
| ESend
| ECanceled
| EAlreadyStopped
| ENotFound
| EStillRunning
| ETimeout

type opk =
| OSend
| OCall
| OPing
| OStop
| ORestart
| OHalt
| OAwait
| OAwaitRef
| OJoin
| OConsume
| OForce
| OPublish
| OUnsubscribe

type rval =
| ROk
| ROkV of nat list
| RErr of err
| RNone
| RSomeV of nat list
| RBool of bool
| RSkip
| ROptBool of bool option
| RInst of aid option

type pkind =
| PkTask
| PkStop
| PkRestart
| PkNone

type cbk =
| CbStarted
| CbStopped
| CbFinished

type hstat =
| HCompleted
| HAbandoned
| HPanicked

type cbstat =
| CbOk
| CbFail
| CbPanicked
| CbCancelled

type tkind =
| TInterval
| TIntervalWith
| TDelayedSend
| TDelayedExec

type endk =
| EndReturned
| EndPanicked
| EndCancelled

type bwhat =
| BPubBegin
| BHolds
| BTarget
| BPubEnd
| BSub
| BUnsub
| BTopic

type topk =
| TPublish
| TSubscribe
| TUnsubscribe

type regk =
| RgFrom
| RgSetup
| RgRegister
| RgReplace
| RgUnregister
| RgTryFrom
| RgAlready

type spawn_cfg = { sc_bound : nat option; sc_timeout : nat option;
                   sc_failto : bool; sc_strat : strategy; sc_stream : 
                   bool; sc_entry : nat; sc_ty : nat }

type event =
| EvSpawn of aid * spawn_cfg
| EvHandle of hid * aid * hkind
| EvDrop of hid
| EvUpg of hid * bool
| EvOp of oid * nat * hid * opk * nat * nat
| EvRet of oid * rval
| EvDeq of aid * pkind
| EvHBegin of aid * oid
| EvHEnd of aid * oid * hstat
| EvPush of aid * nat
| EvSleep of aid * nat
| EvCbBegin of aid * cbk
| EvCbEnd of aid * cbk * cbstat
| EvTaskEnd of aid * endk
| EvClock of nat
| EvQuiesce
| EvBudget
| EvTimerEnd of aid * nat * endk
| EvClientEnd of nat * endk
| EvForeign of aid
| EvCtx of aid * bool * bool * oid
| EvTimerReg of aid * nat * tkind * nat
| EvTick of aid * nat * oid
| EvExec of aid * nat
| EvYield of aid * nat * nat
| EvStreamEnd of aid
| EvItemBegin of aid * nat
| EvItemEnd of aid * nat * hstat
| EvJoinNew of jid * hid
| EvJoinDrop of jid
| EvChildAdd of aid * nat * hid
| EvBcast of aid * nat * oid
| EvReg of oid * nat * regk * nat * hid
| EvSubscribe of aid * nat * oid
| EvDeliver of aid * nat * nat
| EvPubCopy of nat * oid * nat * oid * aid * hid
| EvRelease of aid * nat
| EvQuery of nat * hid * bool * bool
| EvCrash of aid
| EvStreamClose of aid
| EvBcastBegin of aid * nat
| EvTimerSleep of aid * nat * nat
| EvProbe of aid * oid
| EvBroker of aid * bwhat * aid * hid
| EvTopicOp of oid * nat * topk * nat * nat
| EvTopicRet of oid * bool
| EvBcastEnd of aid * nat
| EvIdentity of aid * bool
| EvAbandon of oid

val dec_bool : nat -> bool

val dec_opt : nat -> nat option

val dec_hkind : nat -> hkind option

val dec_strategy : nat -> strategy option

val dec_err : nat -> err option

val dec_opk : nat -> opk option

val dec_pkind : nat -> pkind option

val dec_cbk : nat -> cbk option

val dec_hstat : nat -> hstat option

val dec_cbstat : nat -> cbstat option

val dec_tkind : nat -> tkind option

val dec_bwhat : nat -> bwhat option

val dec_topk : nat -> topk option

val dec_endk : nat -> endk option

val dec_regk : nat -> regk option

val omap : ('a1 -> 'a2) -> 'a1 option -> 'a2 option

val obind : 'a1 option -> ('a1 -> 'a2 option) -> 'a2 option

val dec_rval : nat list -> rval option

val decode : nat list -> event option

val err_eqb : err -> err -> bool

val rval_eqb : rval -> rval -> bool

type payload =
| PTask of oid
| PStop of oid
| PRestart of oid

val pid : payload -> oid

type parkent =
| PkOp of oid
| PkDead of oid

val pkowner : parkent -> oid

type cbwhy =
| WInitial
| WRestart
| WExit

type phase =
| PhFresh
| PhCb of cbk * cbwhy
| PhIdle
| PhDeq of payload
| PhHandle of oid * nat option
| PhYield of nat
| PhItem of nat
| PhBetween of cbwhy * cbk
| PhFailing
| PhPanicking
| PhExiting
| PhDone

type notif =
| NArmed
| NFired
| NDropped

type exitk =
| XOk of nat list
| XErr
| XPanic
| XCancel

type tstate =
| TsNew
| TsSleeping of nat
| TsParked of oid
| TsEnding
| TsEnded

type timer = { t_kind : tkind; t_d : nat; t_st : tstate; t_aborted : bool }

type taskh =
| THeld
| THTaken
| THGone

type mbox = { m_bound : nat option; m_queue : payload list;
              m_parked : parkent list; m_rx : bool }

type actor = { a_cfg : spawn_cfg; a_mb : mbox; a_phase : phase;
               a_state : nat list; a_inc : nat; a_tx : nat; a_ftx : nat;
               a_inflight : nat; a_notif : notif; a_timers : timer list;
               a_children : (nat * hid) list; a_crashing : bool;
               a_exit : exitk option; a_next : nat; a_sended : bool;
               a_task : taskh; a_bcur : nat; a_sleep : nat option }

type slot =
| SNone
| SOpen
| SVal of nat list
| SCancelled

type okind =
| XSend
| XCall
| XPing
| XForce
| XStop
| XRestart
| XHalt
| XAwait
| XTick
| XCtl
| XBcast
| XCopy
| XJoin
| XConsume
| XReg
| XOther

type op = { op_k : okind; op_a : aid; op_imm : rval option; op_slot : 
            slot; op_done : bool; op_w : bool; op_htx : nat; op_hftx : 
            nat; op_timer : nat option; op_reg : (regk * nat) option }

type jstate =
| JNew
| JTaken
| JEmpty

type sys = { actors : actor map0; handles : (aid * hkind) map0;
             ops : op map0; now : nat; joins : (aid * jstate) map0;
             reg : aid map0; rlock : bool; rpend : nat; alist : aid list;
             pending : oid list }

val set_a_mb : mbox -> actor -> actor

val set_a_phase : phase -> actor -> actor

val set_a_state : nat list -> actor -> actor

val set_a_inc : nat -> actor -> actor

val set_a_tx : nat -> actor -> actor

val set_a_ftx : nat -> actor -> actor

val set_a_inflight : nat -> actor -> actor

val set_a_notif : notif -> actor -> actor

val set_a_timers : timer list -> actor -> actor

val set_a_children : (nat * hid) list -> actor -> actor

val set_a_crashing : bool -> actor -> actor

val set_a_exit : exitk option -> actor -> actor

val set_a_next : nat -> actor -> actor

val set_a_sended : bool -> actor -> actor

val set_a_task : taskh -> actor -> actor

val set_a_bcur : nat -> actor -> actor

val set_a_sleep : nat option -> actor -> actor

val set_op_imm : rval option -> op -> op

val set_op_slot : slot -> op -> op

val set_op_done : bool -> op -> op

val set_op_w : bool -> op -> op

val set_op_htx : nat -> op -> op

val set_op_hftx : nat -> op -> op

val set_op_timer : nat option -> op -> op

val set_op_reg : (regk * nat) option -> op -> op

val set_actors : actor map0 -> sys -> sys

val set_handles : (aid * hkind) map0 -> sys -> sys

val set_ops : op map0 -> sys -> sys

val set_now : nat -> sys -> sys

val set_joins : (aid * jstate) map0 -> sys -> sys

val set_reg : aid map0 -> sys -> sys

val set_rlock : bool -> sys -> sys

val set_rpend : nat -> sys -> sys

val set_alist : aid list -> sys -> sys

val set_pending : oid list -> sys -> sys

val del : 'a1 map0 -> nat -> 'a1 map0

val init : sys

val get_actor : sys -> aid -> nat -> actor res

val put_actor : sys -> aid -> actor -> sys

val get_op : sys -> oid -> nat -> op res

val put_op : sys -> oid -> op -> sys

val add_pend : oid -> sys -> sys

val del_pend : oid -> sys -> sys

val add_actor : aid -> sys -> sys

val over : mbox -> bool

val mb_enq : bool -> payload -> mbox -> mbox

val mb_deq : mbox -> (payload * mbox) option

val mb_drop : mbox -> mbox

val enq : bool -> payload -> actor -> actor

val deq : actor -> (payload * actor) option

val rx_drop : actor -> actor

val parked_op : actor -> oid -> bool

val holds : hkind -> nat * nat

val is_weak : hkind -> bool

val add_refs : nat -> nat -> actor -> actor

val sub_refs : nat -> nat -> actor -> actor

val closed : actor -> bool

val upgradable : actor -> bool

val force_alive : actor -> bool

val cancel_slot : sys -> oid -> sys

val cancel_all : sys -> payload list -> sys

val drop_handle : sys -> hid -> nat -> sys res

val drop_handles : sys -> hid list -> nat -> sys res

val in_user_code : phase -> bool

val set_nth : 'a1 list -> nat -> 'a1 -> 'a1 list

val set_t_st : tstate -> timer -> timer

val abort_timer : timer -> timer

val abort_timers : actor -> actor

val new_op : okind -> aid -> op

val submit :
  sys -> aid -> oid -> payload -> bool -> bool -> okind -> slot -> nat -> nat
  -> nat option -> sys res

val ret_expect : op -> actor -> oid -> rval option

val teardown : sys -> aid -> actor -> exitk -> notif -> sys res

val timer_at : actor -> nat -> timer option

val put_timer : actor -> nat -> timer -> actor

val handler_deadline : actor -> nat -> nat option

val cbk_eqb : cbk -> cbk -> bool

val running : sys -> aid -> bool

val live_entry : sys -> nat -> aid option

val adj_refs : sys -> aid -> bool -> sys res

val release_entry : sys -> nat -> sys res

val reg_ret : sys -> oid -> op -> regk -> nat -> rval -> sys res

val fresh_actor : spawn_cfg -> nat -> actor

val due : nat -> nat option -> bool

val timer_stable : nat option -> timer -> bool

val actor_stable : nat option -> actor -> bool

val op_stable : sys -> oid -> bool

val stable : sys -> nat option -> bool

val step : sys -> event -> sys res

val run : sys -> event list -> sys res

val run_diag : sys -> event list -> nat -> (nat * nat) option

val accepts : event list -> bool

type m12 = { mb : nat option map0; mh : (aid * hkind) map0;
             ms : (aid * bool) map0; mo : oid list map0; md : unit map0 }

val m12_init : m12

val out_of : m12 -> aid -> oid list

val is_send_handle : hkind -> bool

val m12_step : m12 -> event -> m12 option

val m12_run : m12 -> event list -> m12 option

val chk_C12 : event list -> bool

type m12w = { wb : nat option map0; wh : (aid * hkind) map0;
              wmust : oid option }

val m12w_init : m12w

val m12w_step : m12w -> event -> m12w option

val m12w_run : m12w -> event list -> m12w option

val chk_C12_nowait : event list -> bool

type lc =
| LFresh
| LStarting
| LRunning
| LTaken
| LHandling of oid
| LYielded of nat
| LItem of nat
| LToFinish
| LFinishing
| LToStop of bool
| LStopping of bool
| LToStart
| LExiting
| LFailing
| LUnwinding
| LEnded

type cfg03 = { c_stream : bool; c_restartable : bool; c_failto : bool }

type m03 = { st : lc map0; cf : cfg03 map0; crashing : unit map0 }

val m03_init : m03

val restartable : strategy -> bool

val set_st : m03 -> aid -> lc -> m03 option

val m03_step : m03 -> event -> m03 option

val m03_run : m03 -> event list -> m03 option

val chk_C03 : event list -> bool

type m14 = { qd : unit map0; qh : aid map0 }

val m14_init : m14

val m14_step : m14 -> event -> m14 option

val m14_run : m14 -> event list -> m14 option

val chk_C14 : event list -> bool

type s13 =
| SIdle
| SYielded of nat
| SItem of nat
| SMsg of oid
| SOther

type a13 = { ny : nat; ph : s13; ended : bool }

type m13 = { sa : a13 map0; cr : unit map0 }

val m13_init : m13

val put13 : m13 -> aid -> a13 -> m13 option

val m13_step : m13 -> event -> m13 option

val m13_run : m13 -> event list -> m13 option

val chk_C13 : event list -> bool

type c11 = { t_to : nat option; t_stream : bool }

type m11 = { tnow : nat; tcf : c11 map0; thb : (oid * nat) map0;
             tcr : unit map0 }

val m11_init : m11

val limit : c11 -> nat -> nat option

val m11_step : m11 -> event -> m11 option

val m11_run : m11 -> event list -> m11 option

val chk_C11 : event list -> bool

type m04 = { lcm : m03; wh0 : aid map0; wop : aid map0; wend : bool map0 }

val m04_init : m04

val lc_next : m03 -> event -> m03

val graceful : m03 -> aid -> endk -> bool

val m04_step : m04 -> event -> m04 option

val m04_run : m04 -> event list -> m04 option

val chk_C04 : event list -> bool

type fanout = { f_held : (aid * hid) list; f_rem : aid list;
                f_served : aid list; f_cur : (aid * hid) option;
                f_src : oid option }

type m09 = { tbl : aid list map0; fan : fanout map0; cop : aid map0 }

val m09_init : m09

val delm : 'a1 map0 -> nat -> 'a1 map0

val table : m09 -> aid -> aid list

val rm : aid -> aid list -> aid list

val held_by : fanout -> aid -> bool

val pair_in : aid -> hid -> (aid * hid) list -> bool

val m09_step : m09 -> event -> m09 option

val m09_run : m09 -> event list -> m09 option

val chk_C09 : event list -> bool

type trec = { r_kind : tkind; r_d : nat; r_t0 : nat; r_n : nat; r_last : nat }

type m10 = { xnow : nat; xt : trec list map0 }

val m10_init : m10

val xtimers : m10 -> aid -> trec list

val set_nth10 : trec list -> nat -> trec -> trec list

val fired : nat -> trec -> trec

val fire_ok : nat -> trec -> bool

val m10_step : m10 -> event -> m10 option

val m10_run : m10 -> event list -> m10 option

val chk_C10 : event list -> bool

val had_ref : aid list -> aid -> bool

val prov_step : sys -> aid list -> event -> aid list option

val prov_run : sys -> aid list -> event list -> (sys * aid list) option

val chk_C05 : event list -> bool

type m16 = { kids : nat list map0; cnt : nat map0 }

val m16_init : m16

val kids_of : m16 -> aid -> nat list

val cnt_of : m16 -> aid -> nat

val count_ty : nat -> nat list -> nat

val m16_step : m16 -> event -> m16 option

val m16_run : m16 -> event list -> m16 option

val chk_C16 : event list -> bool

type top = (oid * topk) * nat

val rmq : aid -> aid list -> aid list

val table_after : top list -> aid list -> aid list

type m09q = { q_pend : ((topk * nat) * nat) map0; q_enq : top list map0;
              q_done : top list map0; q_wait : top list map0; q_bt : 
              nat map0 }

val m09q_init : m09q

val lof : top list map0 -> nat -> top list

val topk_eqb : topk -> topk -> bool

val take : m09q -> nat -> topk -> (top -> bool) -> m09q option

val m09q_step : m09q -> event -> m09q option

val m09q_run : m09q -> event list -> m09q option

val chk_C09q : event list -> bool

type m09s = { s_q : m09q; s_must : aid list map0 }

val m09s_init : m09s

val upgrades : sys -> aid -> bool

val must_of : m09s -> aid -> aid list

val m09s_step : sys -> m09s -> event -> m09s option

val m09s_run : sys -> m09s -> event list -> (sys * m09s) option

val chk_C09s : event list -> bool
