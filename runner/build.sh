#!/bin/sh
# extract the model and build the runner; run from /verif/runner after `make` in /verif/coq
set -e
cd "$(dirname "$0")"
coqc -Q ../coq/theories Hannibal ../coq/theories/Extract.v >/dev/null
rm -f ../coq/theories/Extract.vo ../coq/theories/Extract.glob ../coq/theories/.Extract.aux ../coq/theories/Extract.vos ../coq/theories/Extract.vok
ocamlfind ocamlopt -O2 -w -a model.mli model.ml monitors.ml driver.ml -o runner 2>/dev/null || ocamlfind ocamlopt -w -a model.mli model.ml monitors.ml driver.ml -o runner
