(* Reads trace files written by the harness (blocks "C <idx>" / one event per line / "E"),
   decodes every line with the extracted [decode], runs the extracted model and the requested
   property acceptors, prints one verdict line per case. *)
open Model

let rec nat_of_int n = if n <= 0 then O else S (nat_of_int (n - 1))
let rec int_of_nat = function O -> 0 | S n -> 1 + int_of_nat n

let parse_line (l : string) : nat list =
  String.split_on_char ' ' l |> List.filter (fun s -> s <> "") |> List.map (fun s -> nat_of_int (int_of_string s))

let monitors : (string * (event list -> bool)) list = Monitors.all

let () =
  let file = Sys.argv.(1) in
  let wanted = Array.to_list (Array.sub Sys.argv 2 (Array.length Sys.argv - 2)) in
  let ic = open_in file in
  let cur = ref None and evs = ref [] and bad = ref None and n = ref 0 in
  (try
     while true do
       let l = input_line ic in
       if String.length l > 1 && l.[0] = 'C' then begin
         cur := Some (int_of_string (String.sub l 2 (String.length l - 2)));
         evs := []; bad := None; n := 0
       end else if l = "E" then begin
         (match !cur with
          | None -> ()
          | Some idx ->
            (match !bad with
             | Some i -> Printf.printf "%d DECODE %d\n" idx i
             | None ->
               let tr = List.rev !evs in
               (match run_diag init tr O with
                | None -> Printf.printf "%d MODEL ok %d\n" idx !n
                | Some (i, w) -> Printf.printf "%d MODEL rej %d %d\n" idx (int_of_nat i) (int_of_nat w));
               List.iter (fun m ->
                   match List.assoc_opt m monitors with
                   | Some f -> Printf.printf "%d %s %s\n" idx m (if f tr then "ok" else "fail")
                   | None -> Printf.printf "%d %s unknown\n" idx m) wanted));
         cur := None
       end else begin
         (match decode (parse_line l) with
          | Some e -> evs := e :: !evs
          | None -> if !bad = None then bad := Some !n);
         incr n
       end
     done
   with End_of_file -> ());
  close_in ic
