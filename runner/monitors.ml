(* name -> extracted acceptor *)
let all : (string * (Model.event list -> bool)) list = [
  ("accepts", Model.accepts);
]
