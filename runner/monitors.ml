(* name -> extracted acceptor *)
let all : (string * (Model.event list -> bool)) list = [
  ("accepts", Model.accepts);
  ("C12", Model.chk_C12);
  ("C12_nowait", Model.chk_C12_nowait);
  ("C03", Model.chk_C03);
  ("C14", Model.chk_C14);
  ("C13", Model.chk_C13);
  ("C11", Model.chk_C11);
  ("C04", Model.chk_C04);
  ("C09", Model.chk_C09);
  ("C10", Model.chk_C10);
  ("C05", Model.chk_C05);
  ("C16", Model.chk_C16);
  ("C09q", Model.chk_C09q);
  ("C09s", Model.chk_C09s);
]
